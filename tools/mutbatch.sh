#!/bin/bash
# tools/mutbatch.sh <nslots> <patch> [<patch> ...]
# Evaluates patches in parallel over <nslots> isolated slots (tools/mutrun.sh).
# Checks to run per mutant: env MUT_CHECKS ("C04 C18"), default all.
# Skips patches that already have a result in /tmp/mut/results unless MUT_FORCE=1.
N="$1"; shift
HERE="$(cd "$(dirname "$0")" && pwd)"
printf '%s\n' "$@" | awk -v n="$N" '{print > ("/tmp/mut/queue." (NR % n))}'
for i in $(seq 0 $((N-1))); do
  [ -f /tmp/mut/queue.$i ] || continue
  ( while read -r p; do
      name="$(basename "$(dirname "$p")")-$(basename "$p" .diff)"
      if [ -z "${MUT_FORCE:-}" ] && [ -f "/tmp/mut/results/$name.json" ]; then continue; fi
      "$HERE/mutrun.sh" "b$i" "$p" ${MUT_CHECKS:-} >/dev/null
    done < /tmp/mut/queue.$i; rm -f /tmp/mut/queue.$i ) &
done
wait
