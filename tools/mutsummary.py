#!/usr/bin/env python3
"""Summarises /tmp/mut/results/*.json: per mutant, suite status and the checks that alarmed."""
import json, glob, os, sys
rows = []
for f in sorted(glob.glob("/tmp/mut/results/*.json")):
    try: r = json.load(open(f))
    except Exception as e: print("bad", f, e); continue
    if r.get("status") != "ran": print(f"{r['mutant']:60s} {r['status']}"); continue
    caught = [c["check"] for c in r["checks"] if c["exit"] == 1]
    broken = [f'{c["check"]}(exit {c["exit"]})' for c in r["checks"] if c["exit"] not in (0, 1)]
    print(f"{r['mutant']:62s} suite={r['suite'][:28]:28s} caught_by={','.join(caught) or '-'} {' MACHINERY:'+','.join(broken) if broken else ''}")
