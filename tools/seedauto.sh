#!/bin/bash
# tools/seedauto.sh <worktree-name> <seed-dir-name> <checks...>: verify a seed, drop its worktree, evaluate it in slot s1
n="$1"; d="$2"; shift 2
V="$(cd "$(dirname "$0")/.." && pwd)"
"$V/tools/seedverify.sh" /tmp/seed/$n "$d" > /tmp/seed/verify-$n.log 2>&1
grep -E "^passed=|failing tests outside|^test result" /tmp/seed/verify-$n.log
git -C /repo worktree remove --force /tmp/seed/$n
MUT_SUITE=0 "$V/tools/mutrun.sh" "${SLOT:-s1}" "$V/seeded/$d/patch.diff" "$@" | cut -c1-1200
