#!/usr/bin/env python3
"""Makes the instrumented copy of the liquid crates that C20's scheduler links.

    instrument.py <repo> <dest> [--plain]

Copies <repo>'s *working tree* (not HEAD; minus .git and target) to <dest>/repo and, unless
--plain, redirects every `std::sync` path in the library sources (crates/core/src,
crates/lib/src, src) to `verif_hooks::sync` (feature `verif-hooks` of liquid-core), whose Mutex,
RwLock and atomics report to the controlled scheduler.  So any synchronisation primitive the
crates use -- today one mutex in partials/lazy.rs, tomorrow whatever a change introduces -- is a
scheduling point, without the change having to know about the hooks.

Files are written only when their content changes, so cargo rebuilds only what changed in <repo>.
Writes <dest>/instrument.json: mode, files rewritten, replacements, the primitives in use per
file, and constructs the rewrite does not handle (reported in the evidence, never silently).
"""
import json, os, re, sys

repo, dest = sys.argv[1], sys.argv[2]
plain = "--plain" in sys.argv[3:]
out_root = os.path.join(dest, "repo")
SKIP_DIRS = {".git", "target", ".github"}
LIB_DIRS = [("crates/core/src/", "crate::verif_hooks::sync"),
            ("crates/lib/src/", "liquid_core::verif_hooks::sync"),
            ("src/", "liquid_core::verif_hooks::sync")]
PAT = re.compile(r"(?<![A-Za-z0-9_:])(?:::)?std::sync\b")
NESTED = re.compile(r"\bstd::\{[^;]*\bsync\b", re.S)
PRIM = re.compile(r"\b(Mutex|RwLock|Condvar|Barrier|OnceLock|LazyLock|Once|mpsc|Atomic[A-Z][A-Za-z0-9]*|thread_local|static\s+mut|UnsafeCell|RefCell<[^>]*>\s*=)\b")

report = {"mode": "plain" if plain else "instrumented", "files_rewritten": 0, "replacements": 0,
          "primitives": {}, "unhandled": [], "source": os.path.abspath(repo)}
wanted = set()
for root, dirs, files in os.walk(repo):
    dirs[:] = [d for d in dirs if d not in SKIP_DIRS]
    for f in files:
        sp = os.path.join(root, f)
        rel = os.path.relpath(sp, repo)
        if os.path.islink(sp):
            continue
        wanted.add(rel)
        try:
            data = open(sp, "rb").read()
        except OSError:
            continue
        if rel.endswith(".rs") and not rel.endswith("verif_hooks.rs"):
            target = next((t for d, t in LIB_DIRS if rel.startswith(d)), None)
            if target:
                text = data.decode("utf-8", "replace")
                # strip line comments for the inventory only
                code = "\n".join(l for l in text.split("\n") if not l.lstrip().startswith("//"))
                cut = code.find("#[cfg(test)]")
                code = code if cut < 0 else code[:cut]
                prims = sorted(set(m.group(1).split("<")[0].strip() for m in PRIM.finditer(code)) - {"LazyLock"} | ({"LazyLock"} if "LazyLock" in code else set()))
                if prims:
                    report["primitives"][rel] = prims
                if not plain:
                    new, n = PAT.subn(target, text)
                    if n:
                        report["files_rewritten"] += 1
                        report["replacements"] += n
                        data = new.encode("utf-8")
                    if NESTED.search(code):
                        report["unhandled"].append(f"{rel}: nested `use std::{{.. sync ..}}` import is not redirected")
                    if re.search(r"\b(Condvar|mpsc|Barrier)\b", code):
                        report["unhandled"].append(f"{rel}: Condvar/mpsc/Barrier are not modelled by the scheduler")
                    if re.search(r"\bthread::(spawn|scope)\b", code):
                        report["unhandled"].append(f"{rel}: the library spawns threads of its own (not managed)")
        dp = os.path.join(out_root, rel)
        try:
            if open(dp, "rb").read() == data:
                continue
        except OSError:
            pass
        os.makedirs(os.path.dirname(dp), exist_ok=True)
        with open(dp, "wb") as fh:
            fh.write(data)
# remove files that no longer exist in the source
for root, dirs, files in os.walk(out_root):
    dirs[:] = [d for d in dirs if d not in {"target"}]
    for f in files:
        rel = os.path.relpath(os.path.join(root, f), out_root)
        if rel not in wanted and rel != "Cargo.lock":
            os.remove(os.path.join(root, f))
with open(os.path.join(dest, "instrument.json"), "w") as fh:
    json.dump(report, fh, indent=1, sort_keys=True)
print(f"instrument: mode={report['mode']} files_rewritten={report['files_rewritten']} replacements={report['replacements']} "
      f"files_with_primitives={len(report['primitives'])} unhandled={len(report['unhandled'])}")
