#!/usr/bin/env python3
"""Generates /verif/mutants/<prop>/<name>.diff from /verif/mutants/spec.py.

Each spec entry is (property, name, [(file, old, new), ...], note): a small,
realistic property-breaking edit expressed as exact string replacements.  The
edits are applied in a scratch worktree of /repo (never in /repo), `git diff`
is saved as the patch, and the worktree is reverted.  Patches are evaluated
with tools/mutrun.sh / tools/mutbatch.sh.
"""
import os, subprocess, sys, importlib.util
HERE = os.path.dirname(os.path.dirname(os.path.abspath(__file__)))
WT = "/tmp/mut/gen/repo"
def sh(*a, **k): return subprocess.run(a, check=False, capture_output=True, text=True, **k)
if not os.path.isdir(WT):
    os.makedirs("/tmp/mut/gen", exist_ok=True)
    r = sh("git", "-C", "/repo", "worktree", "add", "--detach", WT, "HEAD")
    assert r.returncode == 0, r.stderr
sh("git", "-C", WT, "checkout", "--detach", sh("git","-C","/repo","rev-parse","HEAD").stdout.strip())
sh("git", "-C", WT, "checkout", "--", ".")
spec = importlib.util.spec_from_file_location("spec", os.path.join(HERE, "mutants", "spec.py"))
m = importlib.util.module_from_spec(spec); spec.loader.exec_module(m)
only = set(sys.argv[1:])
bad = 0
for prop, name, edits, note in m.MUTANTS:
    if only and name not in only and prop not in only: continue
    out = os.path.join(HERE, "mutants", prop, name + ".diff")
    if os.path.exists(out) and not only: continue
    ok = True
    for f, old, new in edits:
        p = os.path.join(WT, f); s = open(p).read()
        if s.count(old) != 1:
            print(f"!! {prop}/{name}: {f}: old text occurs {s.count(old)} times"); ok = False; break
        open(p, "w").write(s.replace(old, new))
    if ok:
        d = sh("git", "-C", WT, "diff").stdout
        os.makedirs(os.path.dirname(out), exist_ok=True)
        open(out, "w").write(d)
        open(out[:-5] + ".note", "w").write(note + "\n")
        print("ok", prop, name)
    else: bad += 1
    sh("git", "-C", WT, "checkout", "--", ".")
sys.exit(1 if bad else 0)
