#!/usr/bin/env python3
# mkprompt.py <PROP> <name>: creates worktree /tmp/seed/<name> and prompt /tmp/seed/prompts/<name>.txt
import json, sys, glob, subprocess, os
prop, name = sys.argv[1], sys.argv[2]
P = None
for l in open('/verif/properties.jsonl'):
    p = json.loads(l)
    if p['id'] == prop: P = p
used = []
for m in sorted(glob.glob(f'/verif/seeded/{prop}-*/meta.json')):
    used.append(json.load(open(m))['change'])
tmpl = open('/tmp/seed/prompts/c20f.txt' if __import__('os').path.exists('/tmp/seed/prompts/c20f.txt') else '/verif/tools/seed_prompt_c20f.txt').read()
head, rest = tmpl.split('The following semantic property', 1)
_, tail = rest.split('YOUR TASK:', 1)
pre, post = tail.split('Do NOT use any of these mechanisms, they have been used already:', 1)
_, post2 = post.split('Pick a different code site / mechanism.', 1)
usedtxt = ' '.join(f'({i+1}) {u};' for i, u in enumerate(used))
out = (head + 'The following semantic property is supposed to hold for this codebase (JSON, includes the statement, what it quantifies over, and the anchoring code):\n\n'
       + json.dumps(P, indent=1) + '\n\nYOUR TASK:' + pre + 'Do NOT use any of these mechanisms, they have been used already: ' + usedtxt + ' Pick a different code site / mechanism.' + post2)
out = out.replace('c20f', name)
open(f'/tmp/seed/prompts/{name}.txt', 'w').write(out)
if not os.path.isdir(f'/tmp/seed/{name}'):
    subprocess.check_call(['git', '-C', '/repo', 'worktree', 'add', '--detach', f'/tmp/seed/{name}', 'HEAD', '-q'])
print(name, len(out), 'bytes;', len(used), 'used mechanisms')
