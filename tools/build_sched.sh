#!/bin/sh
# Builds C20's scheduler binary against an instrumented copy of the crates' *working tree*.
#   tools/build_sched.sh            (source tree: $LQV_REPO, default /repo)
# 1. tools/instrument.py copies the tree to harness/sched/instr/repo, redirecting std::sync to
#    the verif-hooks shim; 2. cargo builds harness/sched.  If the instrumented copy does not
#    compile (a change uses a primitive the shim does not offer), the copy is remade *plain*
#    (only the committed hook in partials/lazy.rs is active) and built again; the mode actually
#    built is recorded in harness/sched/instr/instrument.json and reported in the evidence.
# exit 0 = built; 2 = neither variant builds (machinery failure).
V="$(cd "$(dirname "$0")/.." && pwd)"
REPO="${LQV_REPO:-/repo}"
export CARGO_NET_OFFLINE=true
LOG="$V/harness/target-build-lqv-sched.log"
[ -f "$V/harness/sched/Cargo.lock" ] || cp "$REPO/Cargo.lock" "$V/harness/sched/Cargo.lock"
build() { ( cd "$V/harness/sched" && CARGO_TARGET_DIR="$V/harness/target" cargo build --offline --profile verif -p lqv-sched ) >"$LOG" 2>&1; }
python3 "$V/tools/instrument.py" "$REPO" "$V/harness/sched/instr" >"$LOG.instr" 2>&1 || { cat "$LOG.instr" >&2; exit 2; }
if build; then exit 0; fi
echo "[C20] note: the instrumented copy does not build; falling back to the plain copy (lazy-cache hook only)" >&2
grep -E "^error" -A6 "$LOG" | head -30 >&2
cp "$LOG" "$LOG.instrumented-failure"
python3 "$V/tools/instrument.py" "$REPO" "$V/harness/sched/instr" --plain >"$LOG.instr" 2>&1 || exit 2
python3 - "$V/harness/sched/instr/instrument.json" "$LOG.instrumented-failure" <<'P'
import json, sys
j = json.load(open(sys.argv[1])); log = open(sys.argv[2], errors="replace").read()
errs = [l for l in log.split("\n") if l.startswith("error")][:5]
j["fallback_reason"] = "instrumented copy failed to compile: " + " | ".join(errs)
json.dump(j, open(sys.argv[1], "w"), indent=1, sort_keys=True)
P
if build; then exit 0; fi
tail -40 "$LOG" >&2
exit 2
