#!/usr/bin/env python3
"""Generates /verif/MANIFEST.json from the table below and validates it."""
import json, os, sys
HERE = os.path.dirname(os.path.dirname(os.path.abspath(__file__)))

# id -> (implemented, engine, category, technique, text, note, design_ref)
P = {
 "C01": (True, "enum", "exploration",
   "bounded-exhaustive enumeration of token/argument/expression/structure sequences, nestings and single/double character edits, in 3 parser configurations, with a panic/hang oracle and a one-sided structural rejection oracle",
   "Every input of the stated alphabets and lengths is parsed in every configuration: the call must return, an Err must carry a message, and inputs an independent structural checker marks as definitely outside the language must be rejected. Exhaustive within the bounds printed in the evidence; the right level because the property is a totality statement over inputs and every known defect has a witness of <= 3 tokens.",
   "panic=unwind build of the crates; 60 s per-case hang watchdog; an abort (stack overflow etc.) is pinned to its case by re-running the journalled windows in child processes; nesting <= 32",
   "DESIGN.md §5 C01"),
 "C04": (True, "progen+refliquid", "model_checking",
   "exhaustive enumeration of all programs up to a node bound over a reused name alphabet; each execution compared with an independent reference interpreter (model) and the caller's data deep-compared",
   "All programs with <= N statement nodes (nesting <= 4) over assign/copy/increment/decrement/output/include/fixed-text capture leaves and capture/for/tablerow/if/unless/case/ifchanged compounds on 2-3 reused names, instrumented with non-raising probes after every statement, on 4 data objects: output or error status must equal the reference interpreter's, and the caller's data must be unchanged. Model checking of the program space against a model; the conformance step is the per-program comparison itself.",
   "reference interpreter refl.rs is the model (kept small; unspecified cells are skipped and counted); values truthy so probes are exact; node bound N<=3 quick / N<=4 thorough",
   "DESIGN.md §5 C04"),
 "C05": (True, "enum+refliquid", "exploration",
   "complete product of loop parameters (length x offset x limit x reversed x cols x source kind x literal/variable arguments) and of nested-loop interrupt placements, compared with the reference interpreter",
   "Every combination of the stated loop parameters is rendered with a body printing the item and every forloop/tablerow field; the output must equal the reference window/metadata computation. tablerow is compared modulo wrapper markup, whose row/col classes are checked separately. Exhaustive within the stated ranges.",
   "reference window = elems[min(offset,len)..min(offset+limit,len)] then reversed; break/continue directly inside tablerow not generated",
   "DESIGN.md §5 C05"),
 "C06": (True, "enum+refliquid", "exploration",
   "complete operator x value-pair matrix (differential against the value model's own comparison API plus an independent reference on uncontroversial cells), all truth assignments of if/elsif/else/unless chains, case/when arm sequences and and/or shapes",
   "Exhaustive over the stated pools: exactly one branch marker must be printed, the truth of every atom must agree with ValueViewCmp and (where defined) the independent reference, branch choice must equal the reference interpreter's.",
   "mixed and/or chains other than `x or y and z` are not generated (grouping not fixed by the statement)",
   "DESIGN.md §5 C06"),
 "C07": (True, "enum+refliquid", "exploration",
   "exhaustive enumeration of all variable paths up to a step bound over nested data roots and of the listed literals, compared with a reference path resolver through a structural dump filter",
   "Every path of <= L steps over the step alphabet (every index in [-len-2,len+1], keys colliding with first/last/size, indices through variables and nested paths, nil/undefined/array-valued indices) on 6-7 nested roots must dump the value the reference resolves, or fail with an error; every listed literal must print the value it denotes.",
   "string index on array, first/last of objects/strings, size of non-string scalars are unspecified and skipped",
   "DESIGN.md §5 C07"),
 "C03": (True, "enum+refliquid", "exploration",
   "complete products of text segments (whitespace runs x cores with stray delimiters/quotes) around output/tag/block markup with every trim-marker side combination; all markup-free token sequences; all raw and comment bodies up to k items; compared with a direct prediction",
   "Every combination is rendered and must equal the prediction: text byte-for-byte, exactly the whitespace run touching a '-' side removed, raw bodies verbatim, comments emitting nothing and leaving bindings/counters/cycles untouched. Exhaustive within the stated alphabets.",
   "whitespace = space/tab/CR/LF; concatenations that spell an opening delimiter are skipped (C01's domain) and counted; whitespace claimed by both an inner `-%}` and `{%- endraw` is unspecified",
   "DESIGN.md §5 C03"),
 "C08": (True, "progen+refliquid", "model_checking",
   "exhaustive enumeration of caller programs over every include/render invocation form of a 15-partial library (plus missing and broken partials), each execution compared with the reference interpreter's scope/register model",
   "All caller programs with <= N nodes (include/render through literal and variable names, key:value, with-as, for-as; inside and outside for / if true / if false / capture) on 2 data objects must produce the reference interpreter's output or fail exactly when it predicts an error (missing/broken partial on an executed path, failing partial).",
   "increment inside a rendered partial, break/continue at top level of a render-for partial, render-for over an empty collection naming a missing partial are unspecified (skipped, counted)",
   "DESIGN.md §5 C08"),
 "C09": (True, "history exploration", "model_checking",
   "breadth-first exhaustive exploration of all render-call histories up to length k on one shared parser (template sets for every stateful construct, failures after partial output inside every wrapping construct, and a construct zoo with every argument position dynamic plus every registered filter), each call compared with the same call on a freshly built parser",
   "State = history of render calls on shared Parser/Template objects; all histories of length <= k over (template x data) alphabets of 6 template sets (cycle/increment/ifchanged, assign/capture, break/continue incl. top-level break and failing renders, errors inside capture/include/render, valid/broken/missing partials with dynamic names, tablerow) under eager, lazy and on-demand stores; plus every generated C08 scenario rendered repeatedly on one parser shared by the whole enumeration.",
   "baseline = same call on a fresh parser, itself computed twice; template sets avoid multi-key object iteration",
   "DESIGN.md §5 C09"),
 "C10": (True, "faultsink", "fault_enumeration",
   "write-fault enumeration: for every generated program and every write call k of its fault-free run the sink fails at k, accepts a short count then fails, or reports EINTR once",
   "Every (program, data, fault position, fault kind) is executed: a failing sink must give Err, no write after the failing one, accepted bytes an exact prefix of the fault-free output; EINTR must be retried transparently; the fault-free stream must equal the buffered render.",
   "std write_all semantics; programs <= 3 (quick) / 4 (thorough) nodes over all writing constructs; plus 12 constructs over long non-ASCII pieces at every alignment with a fault after every byte offset of every write",
   "DESIGN.md §5 C10"),
 "C19": (True, "progen + store exploration", "model_checking",
   "exhaustive scenario enumeration under the three compilation policies (differential), differential removal/replacement of the broken partial, exhaustive exploration of PartialStore API call sequences on the three stores, and every partial source text of <= k lexical items under the three policies",
   "Every generated scenario rendered d0,d1,d0 per policy must agree across eager/lazy/on-demand and across repetitions; renders that do not reach the broken partial must be unchanged when it is replaced or removed; building the parser must succeed; all API call sequences of length <= k on the three stores must give identical observations.",
   "in-memory sources with truthful name listing; error comparison on the first message line",
   "DESIGN.md §5 C19"),
 "C02": (True, "enum", "exploration",
   "complete products: every registered filter (names via reflection) x input x argument vectors of arity 0..3 from the shared value pool; every loop/range/cycle/conditional/include/render/counter construct x pool values in each parameter position; generated programs x type-confused data; oracle = returns Ok/Err, no panic/hang, UTF-8 output",
   "Every (template, data) pair of the stated products is rendered under a panic guard and watchdog: the call must return Ok or Err (with a message) and the bytes written must be valid UTF-8. Exhaustive over the value pool (21 values quick, 65 thorough) at arity <= 3; the right level for a totality statement whose known defects all have witnesses inside this pool.",
   "range widths above 10^4 excluded as the statement says; now/today excluded (clock); aborts are pinned to their case through the supervised child (unattributable ones are machinery failures)",
   "DESIGN.md §5 C02"),
 "C13": (True, "enum", "exploration",
   "exhaustive small-scope enumeration of all strings up to length 4-5 over a 10-character alphabet (combining mark, emoji, whitespace) x argument strings x integers in [-6,8], against an independent character-based reference and algebraic laws; filter chains against stepwise application",
   "Every input/argument combination within the bounds is rendered through a structural dump filter and compared with the reference (both readings of 'character', bytes never) and the laws of the statement (split/join identity, strip = lstrip o rstrip, truncate length bound, slice contiguity, size, append/prepend associativity, chain = left-to-right composition).",
   "capitalize tail, truncatewords on irregular whitespace, slice length <= 0, negative truncate length (unchanged or ellipsis-only), split on empty pattern are tolerated/unspecified",
   "DESIGN.md §5 C13"),
 "C14": (True, "enum", "exploration",
   "exhaustive enumeration of all arrays up to length 5-6 over scalar and object pools, all slice offsets/lengths, and a structured long family (all periodic arrays at lengths 21..64, all rotations of sorted/reversed arrays with duplicates) against reference implementations and laws",
   "Permutation, order, stability, idempotence of sort; first-of-class uniq (value-model equality); exact compact/concat/map/where/first/last/size/slice/join; beyond the 20-element threshold of the standard sort: exact order where elements are mutually comparable, otherwise no failure + permutation.",
   "order among mutually incomparable elements unspecified",
   "DESIGN.md §5 C14"),
 "C15": (True, "enum", "exploration",
   "exhaustive pairs over an integer grid incl. i64 bounds in 4x4 operand representations, the k/8 grid, and a 374-value power-of-two neighbourhood grid, for the seven binary math filters; all grid inputs for ceil/floor/round/abs; compared with i128 / IEEE f64 reference arithmetic",
   "Integer operands: exact result if it fits i64, otherwise Err or the float continuation, never another integer or a crash; divided_by/modulo jointly satisfy n = q*d + r, |r| < |d|, zero divisor is an error; float operands: IEEE result bit-for-bit; numeric strings behave as numbers; ceil/floor/round give the documented neighbour (ties away from zero).",
   "integer division may truncate or floor; float modulo truncated or floored; float zero divisor may be an error or the IEEE result; overflow continuation = nearest double of the exact result or the IEEE operation on converted operands",
   "DESIGN.md §5 C15"),
 "C16": (True, "enum", "exploration",
   "exhaustive enumeration of all strings up to length 4-6 over the three alphabets of the statement (plus entity-token sequences), checked against character scans, inversion, an independent escape_once reference, an independent URL decoder and a tag scan",
   "escape: no raw special character, every & starts one of the five entities, un-escaping gives the input; escape_once: same scan, equals the independent reference, idempotent; url_encode: output alphabet and %XX shape, url_decode inverts it and equals the reference decoder (Err iff not UTF-8); strip_html: no complete <...> tag survives, output is a subsequence of the input, tag-free text unchanged.",
   "alphabets as in the statement, extended with all letters of the entity names",
   "DESIGN.md §5 C16"),
 "C17": (True, "enum", "exploration",
   "exhaustive grid of timestamps x strftime formats (every directive x flags x widths, unknown and malformed formats, concatenations) against an independent calendar/formatter that must first reproduce the module's own expectation tables; all parser syntaxes; round trips; all ordered pairs for chronological comparison",
   "Every (timestamp, format) of the grid is formatted through the public DateTime API (and through the date/date_in_tz filters on a sub-grid) and compared with the reference; every accepted input syntax with and without offset must parse to the right instant and offset; from_str(to_string(x)) must preserve instant and offset; == and < must agree with UTC nanosecond counts.",
   "`#` and flags/width on the zone directives compared modulo padding/case; negative years and now/today outside the grid; %Z prints the numeric offset (documented deviation)",
   "DESIGN.md §5 C17"),
 "C11": (True, "laws", "exploration",
   "exhaustive evaluation of all ordered pairs (with independently rebuilt copies) of a closed 67-value pool through 7 API surfaces and through templates against the algebraic laws of the statement; full pair table recomputed across rebuilds and fresh processes",
   "Reflexivity (NaN excepted), symmetry, != as negation, </> duality, <=/>= coherence on ordered pairs, equal values never strictly ordered, int/float equality within 2^53, chronological date-times, congruence under independent reconstruction, agreement of Value/ValueCow/ValueViewCmp and of if/case/contains/uniq/sort with the API, byte-identical tables across 50-200 rebuilds and 4-16 fresh processes (different hash seeds).",
   "transitivity not claimed; NaN exempt from reflexivity",
   "DESIGN.md §5 C11"),
 "C12": (True, "laws+enum", "exploration",
   "exhaustive enumeration of all values of a recursive generator (23 leaves, arrays 0..2, objects 0..2 keys) to depth 2-3, each observed through 10-13 views/conversions; instances of derived structs rendered both as derived view and as serde conversion through 14 probing templates; integer boundary sweep",
   "All views (as_view, to_value, ValueCow owned/borrowed, Option, references, to_value/from_value/to_object, serde_json round trip) must agree with the original on type name, state answers, kind predicates, size/keys, scalar conversions, printed forms and == in both directions; derived structs must render exactly like their serde conversion; out-of-range integers must be refused or carried as the nearest double.",
   "date-looking strings excluded from the serde -> Liquid direction (documented purpose of the untagged scalar); real dates cross Serialize as strings and are compared through from_value only; a conversion may refuse (enums needing deserialize_enum, 128-bit integers) but must not alter",
   "DESIGN.md §5 C12"),
 "C18": (True, "stackmc", "model_checking",
   "explicit-state model checking (stateright BFS and DFS) of a stack-of-maps model over 28 actions; every transition re-executes the whole history on the real RuntimeBuilder/StackFrame/SandboxedStackFrame/GlobalFrame types and compares all get/try_get/roots/get_index observations with the model; every history is executed a second time with the same observations on every intermediate stack (lookups must be reads)",
   "All reachable abstract states within the bounds (<= 3 layers / 5 operations quick, <= 4 layers / 6 operations thorough) are visited; in each the real top-of-stack runtime must answer every path of length 1..2, the root listing and the counters exactly as the model predicts, the failing and optional lookup must agree, roots() must be exactly the resolving names, and every live layer must see the same counters.",
   "state identity = abstract state (sound because every transition proves the real observations are a function of it); guarded by an un-deduplicated enumeration of all operation sequences to depth 3-4 and by BFS/DFS unique-state agreement",
   "DESIGN.md §5 C18"),
 "C20": (True, "vsched", "model_checking",
   "stateless model checking of schedules: preemption-bounded (and, for the smallest harness, unbounded) DFS with prefix replay over all interleavings of 2-3 real threads at hooked scheduling points (acquire/release of every Mutex/RwLock and every atomic operation of the crates - the check links a copy of the working tree whose std::sync paths are redirected to the verif-hooks shim - plus inside the critical section, between template elements, inside filter chains, around API calls); each execution compared with the sequential baseline",
   "For sixteen harnesses (2-4 threads; first touch of lazily compiled partials, valid and broken; stateful constructs; failing renders; dynamic arguments with every renderable executed twice; interrupts with text after them; two concurrent parses of never-seen text, of different texts, and of a 64-deep nested template; a dynamic render name stored under both spellings; a partial that includes itself 64 levels deep) on shared Parser/Template/PartialStore objects built with the lazy compiler, every interleaving up to the preemption bound is executed on the real code: every call must return exactly its sequential result, no interleaving may deadlock or panic, and a sequential re-run on the used objects must still equal the baseline. The first and every failing schedule are replayed twice (determinism); a thread not reaching its next point in 120 s, or a replay divergence, is a machinery failure, never a verdict.",
   "sequentially consistent interleavings only; scheduling points = every std::sync Mutex/RwLock/atomic of the three crates (textual redirection, reported in the evidence; falls back to the committed lazy-cache hook if the redirected copy does not compile) and the public plugin API; Arc/LazyLock/thread_local are not points; an auxiliary free-running stress run is labelled sampling and not claimed as coverage",
   "DESIGN.md §5 C20"),
}
ORDER = ["C%02d" % i for i in range(1, 21)]
REASON_WIP = "check not built yet in this round (work in progress; planned per DESIGN.md §5)"

def main():
    checks, na = [], []
    for pid in ORDER:
        e = P.get(pid)
        if not e or not e[0]:
            na.append({"property_id": pid, "reason": (e[5] if e else REASON_WIP)})
            continue
        _, engine, cat, tech, text, note, ref = e
        checks.append({
            "property_id": pid,
            "quick_cmd": f"./check {pid} quick",
            "thorough_cmd": f"./check {pid} thorough",
            "evidence_file": f"/verif/evidence/{pid}.json",
            "replay_cmd_template": f"./check {pid} --replay {{path}}",
            "engine": engine,
            "level_claimed": {"category": cat, "text": text, "design_ref": ref},
            "level_note": note,
            "technique": tech,
        })
    hooks_commits = []
    hc = os.path.join(HERE, "hooks_commits.txt")
    if os.path.exists(hc):
        hooks_commits = [l.strip() for l in open(hc) if l.strip()]
    m = {
        "version": 1,
        "setup_cmd": "cd /verif/harness && CARGO_NET_OFFLINE=true cargo build --offline --profile verif && /verif/tools/build_sched.sh",
        "hooks": {
            "guard": "cargo feature `verif-hooks` of liquid-core (off by default)",
            "enable": "only harness/sched/lqv-sched (C20) enables features=[\"verif-hooks\"], on an instrumented copy of /repo's working tree (tools/instrument.py redirects std::sync paths to liquid_core::verif_hooks::sync); every other check builds the crates exactly as a user would",
            "baseline_off_cmd": "cd /repo && cargo nextest run --workspace --no-fail-fast --test-threads 8 --offline || cargo test --workspace --no-fail-fast --offline",
            "source_commits": hooks_commits,
            "add_only": True,
        },
        "engines": [
            {"name": "enum", "path": "harness/lqv-core/src/run.rs", "serves_properties": ["C01","C02","C03","C05","C06","C07","C11","C12","C13","C14","C15","C16","C17"], "kind_free_text": "index-addressable bounded-exhaustive enumerators (parallel, panic guard, hang watchdog)"},
            {"name": "progen+refliquid", "path": "harness/lqv-core/src/ast.rs", "serves_properties": ["C03","C04","C05","C06","C07","C08","C09","C10","C19"], "kind_free_text": "exhaustive program generator + independent reference interpreter"},
            {"name": "faultsink", "path": "harness/lqv-core/src/props/c10.rs", "serves_properties": ["C10"], "kind_free_text": "write-fault enumeration over every write call of a run"},
            {"name": "stackmc", "path": "harness/lqv-core/src/props/c18.rs", "serves_properties": ["C18"], "kind_free_text": "stateright explicit-state model of the runtime stack with per-transition replay on the real frame types"},
            {"name": "vsched", "path": "harness/sched/lqv-sched/src/main.rs", "serves_properties": ["C20"], "kind_free_text": "stateless preemption-bounded DFS over interleavings of real threads at hooked scheduling points"},
            {"name": "laws", "path": "harness/lqv-core/src/props/c11.rs", "serves_properties": ["C11","C12"], "kind_free_text": "exhaustive pair/triple law checker over a closed value pool, cross-process table comparison"},
        ],
        "checks": checks,
        "not_applicable": na,
        "notes": "All checks: ./check <ID> quick|thorough (cwd=/verif). Exit 0 held / 1 VIOLATION / 2 machinery failure. Known findings: /verif/known_findings.json. See DESIGN.md.",
    }
    out = os.path.join(HERE, "MANIFEST.json")
    json.dump(m, open(out, "w"), indent=1)
    try:
        import jsonschema
        jsonschema.validate(m, json.load(open("/root/.vp/MANIFEST.schema.json")))
        print("MANIFEST.json valid:", len(checks), "checks,", len(na), "not_applicable")
    except ImportError:
        print("jsonschema not importable; wrote MANIFEST.json unvalidated")

if __name__ == "__main__":
    main()
