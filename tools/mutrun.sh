#!/bin/bash
# Isolated mutation runner: applies one patch to a *scratch worktree* of /repo
# (never to /repo itself), runs the repository's own suite there, then runs the
# registered quick checks of a scratch copy of /verif against that worktree.
#
#   tools/mutrun.sh <slot> <patch.diff> [CHECK-ID ...]        (default: all 20 checks)
#   MUT_SUITE=0 tools/mutrun.sh ...                           skip the repository suite
#   MUT_TIER=thorough tools/mutrun.sh ...                     run the thorough tier
#
# Slots (/tmp/mut/<slot>) are independent (own worktree, own harness copy, own
# target directories), so several mutants can be evaluated in parallel without
# touching /repo, /verif/evidence or /verif/harness/target.
# Output: one JSON line on stdout and in /tmp/mut/results/<patch-name>.json.
# `tools/mutrun.sh <slot> --clean` removes the slot (worktree + build output).
set -u
SLOT="$1"; PATCH="${2:-}"; shift 2 || true
case "$PATCH" in /*|--clean) ;; *) PATCH="$PWD/$PATCH";; esac
ROOT=/tmp/mut/$SLOT
VERIF_SRC="$(cd "$(dirname "$0")/.." && pwd)"
if [ "$PATCH" = "--clean" ]; then
  git -C /repo worktree remove --force "$ROOT/repo" 2>/dev/null
  rm -rf "$ROOT"; git -C /repo worktree prune; exit 0
fi
CHECKS="$*"
[ -n "$CHECKS" ] || CHECKS="C01 C02 C03 C04 C05 C06 C07 C08 C09 C10 C11 C12 C13 C14 C15 C16 C17 C18 C19 C20"
TIER="${MUT_TIER:-quick}"
mkdir -p "$ROOT" /tmp/mut/results
NAME="$(basename "$(dirname "$PATCH")")-$(basename "$PATCH" .diff)"
if [ ! -d "$ROOT/repo" ]; then
  git -C /repo worktree add --detach "$ROOT/repo" HEAD -q || exit 2
fi
cd "$ROOT/repo" || exit 2
git checkout -q --detach "$(git -C /repo rev-parse HEAD)" 2>/dev/null
git checkout -q -- . ; git clean -fdq -e target
# scratch copy of the machinery, path dependencies redirected to the worktree
mkdir -p "$ROOT/verif"
rsync -a --delete --exclude harness/target --exclude harness/sched/instr --exclude harness/sched/target --exclude .git --exclude seeded --exclude mutants "$VERIF_SRC/" "$ROOT/verif/"
sed -i "s#\"/repo#\"$ROOT/repo#g" "$ROOT/verif/harness/lqv-core/Cargo.toml"
export LQV_REPO="$ROOT/repo"   # tools/build_sched.sh instruments this tree for C20
res() { echo "$1" | tee "/tmp/mut/results/$NAME.json"; }
if ! git apply "$PATCH" 2>"$ROOT/apply.err"; then
  res "{\"mutant\":\"$NAME\",\"status\":\"apply-failed\"}"; exit 0
fi
export CARGO_NET_OFFLINE=true
SUITE="skipped"
if [ "${MUT_SUITE:-1}" = "1" ]; then
  if ! CARGO_TARGET_DIR="$ROOT/repo/target" cargo test --workspace --no-fail-fast --offline -j "${MUT_JOBS:-8}" >"$ROOT/suite.log" 2>&1; then
    if grep -q "^error" "$ROOT/suite.log" && ! grep -q "test result" "$ROOT/suite.log"; then SUITE="compile-error";
    else SUITE="fails:$(grep -E '^test .* FAILED|^    [a-z_:]+$' "$ROOT/suite.log" | grep FAILED | head -5 | tr '\n' ';' | tr -d '"')"; fi
  else
    SUITE="passes:$(grep -E '^test result' "$ROOT/suite.log" | awk '{s+=$4} END {print s}')"
  fi
fi
OUT=""
for c in $CHECKS; do
  s=$(date +%s)
  ( cd "$ROOT/verif" && MUT_JOBS="${MUT_JOBS:-8}" CARGO_BUILD_JOBS="${MUT_JOBS:-8}" timeout 1800 ./check "$c" "$TIER" >"$ROOT/check-$c.log" 2>&1 ); code=$?
  sig=$(grep -h -o 'VIOLATION property=[A-Z0-9]* replay=[^ ]*' "$ROOT/check-$c.log" | head -1)
  first=$(grep -h -m1 -E '^\[C[0-9]+\] +violation|signature' "$ROOT/check-$c.log" | head -1 | tr -d '"\\' | cut -c1-160)
  OUT="$OUT{\"check\":\"$c\",\"exit\":$code,\"secs\":$(( $(date +%s)-s )),\"first\":\"$first\"},"
done
git checkout -q -- . ; git clean -fdq -e target
res "{\"mutant\":\"$NAME\",\"status\":\"ran\",\"suite\":\"$SUITE\",\"tier\":\"$TIER\",\"checks\":[${OUT%,}]}"
