#!/usr/bin/env python3
"""tools/mkmeta.py <seed-dir> <PROP> <batch> <change> <needs> <check-result> [<strengthening>]
Writes seeded/<seed-dir>/meta.json from the verify.log that tools/seedverify.sh left there."""
import json, os, re, sys
d, prop, batch, change, needs, result = sys.argv[1:7]
strengthening = sys.argv[7] if len(sys.argv) > 7 else None
root = os.path.join(os.path.dirname(os.path.abspath(__file__)), "..", "seeded", d)
log = open(os.path.join(root, "verify.log")).read()
m = re.search(r"^passed=\d+ failed=\d+", log, re.M)
outside = re.search(r"failing tests outside the demo: (.*)", log)
meta = {
 "breaks_property": prop,
 "change": change,
 "needs_to_manifest": needs,
 "origin": f"fresh sub-agent given only the property text and a scratch worktree (batch {batch})",
 "verified_by_me": {
  "how": "tools/seedverify.sh in the agent's scratch worktree: patch = git diff of tracked files; whole suite with the change; demo with the change; demo with the patch reverse-applied",
  "repo_suite_with_change": f"{m.group(0) if m else '?'}; failing tests outside the demo: {outside.group(1) if outside else '?'}",
  "demo_with_change": "fails", "demo_without_change": "passes"},
 "checks_run": [result],
 "evaluated_with": "tools/mutrun.sh (isolated scratch worktree + scratch copy of /verif; /repo untouched)",
}
if strengthening:
    meta["checks_run"] = [strengthening, result]
json.dump(meta, open(os.path.join(root, "meta.json"), "w"), indent=1)
print("wrote", os.path.join(root, "meta.json"))
