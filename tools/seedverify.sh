#!/bin/bash
# tools/seedverify.sh <worktree> <seed-dir-name>
# Confirms a seeded change produced by a sub-agent in its scratch worktree:
#  1. patch = `git diff` of tracked files (the demo and notes are untracked)
#  2. whole repository suite with the change: only seeded_demo tests may fail
#  3. demo alone with the change fails, with the change stashed passes
# and stores patch.diff / seeded_demo.rs / notes.md / verify.log under seeded/<name>/.
WT="$1"; NAME="$2"; OUT="$(cd "$(dirname "$0")/.." && pwd)/seeded/$NAME"
mkdir -p "$OUT"; cd "$WT" || exit 2
export CARGO_NET_OFFLINE=true CARGO_TARGET_DIR="$WT/target"
git diff > "$OUT/patch.diff"
[ -s "$OUT/patch.diff" ] || { echo "empty patch"; exit 2; }
cp tests/seeded_demo.rs "$OUT/seeded_demo.rs" || exit 2
cp SEED_NOTES.md "$OUT/notes.md" 2>/dev/null
{
echo "== patch stat"; git diff --stat
echo "== suite with change"
cargo test --workspace --no-fail-fast --offline -j 8 > "$WT/suite.log" 2>&1
grep -E "^test result|Running|FAILED|failed" "$WT/suite.log" | grep -v "^test result: ok" | head -40
P=$(grep -E '^test result' "$WT/suite.log" | awk '{s+=$4} END {print s}'); F=$(grep -E '^test result' "$WT/suite.log" | awk '{s+=$6} END {print s}')
echo "passed=$P failed=$F"
FAILING=$(grep -E '^test .* \.\.\. FAILED' "$WT/suite.log" | awk '{print $2}' | sort -u | tr '\n' ' ')
echo "failing tests: $FAILING"
DEMO_TESTS=$(grep -E '^\s*fn ' tests/seeded_demo.rs | sed -E 's/.*fn ([a-zA-Z0-9_]+).*/\1/' | tr '\n' ' ')
OTHER=""; for t in $FAILING; do case " $DEMO_TESTS " in *" ${t##*::} "*) ;; *) OTHER="$OTHER $t";; esac; done
echo "failing tests outside the demo:${OTHER:- none}"
echo "== demo with change"
cargo test --offline --test seeded_demo 2>&1 | grep -E "^test result|^test " | head -20
echo "== demo without change (patch reverse-applied)"
git apply -R "$OUT/patch.diff"
cargo test --offline --test seeded_demo 2>&1 | grep -E "^test result|^test " | head -20
git apply "$OUT/patch.diff"
git diff --quiet && echo "!! re-apply lost the change"
} 2>&1 | tee "$OUT/verify.log"
