//! C20 — parsers and templates can be shared across threads without changing results.
//!
//! Controlled scheduler (`vsched`): real OS threads, one baton.  A managed
//! thread enters the scheduler at scheduling points: lock acquire / lock
//! released of the lazy partial cache (hook shim in liquid-core, feature
//! `verif-hooks`), inside the critical section (a `PartialSource` whose
//! `try_get` is a point), between template elements (a `{% yield %}` tag) and
//! around every API call.  Exploration is a stateless, preemption-bounded DFS
//! with prefix replay.

use lqv_report::{FamilyStat, Report, Tier};
use serde_json::json;
use std::collections::{HashMap, HashSet};
use std::io::Write;
use std::sync::{Arc, Condvar, Mutex};
use std::time::Duration;

// ------------------------------------------------------------------ controlled scheduler

#[derive(Clone, Debug, PartialEq)]
enum St {
    NotStarted,
    Ready,
    WantLock(usize),
    /// wants the reader-writer lock for reading (shared)
    WantRead(usize),
    Running,
    Finished,
}

#[derive(Clone, Debug)]
struct Choice {
    enabled: Vec<usize>,
    chosen_idx: usize,
    running_enabled: bool,
}

struct Inner {
    st: Vec<St>,
    current: Option<usize>,
    /// lock address -> (exclusive owner, shared owners)
    owner: HashMap<usize, (Option<usize>, Vec<usize>)>,
    prefix: Vec<usize>,
    choices: Vec<Choice>,
    trace: Vec<(usize, &'static str)>,
    deadlock: bool,
    divergence: Option<String>,
}

struct Sched {
    m: Mutex<Inner>,
    cv: Condvar,
}

thread_local! { static TID: std::cell::Cell<Option<usize>> = const { std::cell::Cell::new(None) }; }
static SCHED: Mutex<Option<Arc<Sched>>> = Mutex::new(None);

impl Sched {
    fn new(n: usize, prefix: Vec<usize>) -> Arc<Sched> {
        Arc::new(Sched {
            m: Mutex::new(Inner { st: vec![St::NotStarted; n], current: None, owner: HashMap::new(), prefix, choices: vec![], trace: vec![], deadlock: false, divergence: None }),
            cv: Condvar::new(),
        })
    }

    /// canonical order: the running thread first if still enabled, then ascending ids
    fn enabled(g: &Inner) -> Vec<usize> {
        let mut v = vec![];
        let cur = g.current;
        let is_en = |i: usize| match &g.st[i] {
            St::Ready => true,
            St::WantLock(a) => g.owner.get(a).map(|(x, r)| x.is_none() && r.is_empty()).unwrap_or(true),
            St::WantRead(a) => g.owner.get(a).map(|(x, _)| x.is_none()).unwrap_or(true),
            _ => false,
        };
        if let Some(c) = cur {
            if is_en(c) {
                v.push(c);
            }
        }
        for i in 0..g.st.len() {
            if Some(i) != cur && is_en(i) {
                v.push(i);
            }
        }
        v
    }

    fn schedule(&self, g: &mut Inner) {
        if g.st.iter().any(|s| *s == St::NotStarted) {
            g.current = None;
            return;
        }
        let en = Self::enabled(g);
        if en.is_empty() {
            if !g.st.iter().all(|s| *s == St::Finished) {
                g.deadlock = true;
            }
            g.current = None;
            self.cv.notify_all();
            return;
        }
        let running_enabled = g.current.map(|c| en[0] == c).unwrap_or(false);
        let idx = if en.len() > 1 {
            let k = g.choices.len();
            let idx = if k < g.prefix.len() {
                let i = g.prefix[k];
                if i >= en.len() {
                    g.divergence = Some(format!("choice #{k} = {i} out of range ({} enabled) while replaying a prefix", en.len()));
                    0
                } else {
                    i
                }
            } else {
                0
            };
            g.choices.push(Choice { enabled: en.clone(), chosen_idx: idx, running_enabled });
            idx
        } else {
            0
        };
        let t = en[idx];
        match g.st[t].clone() {
            St::WantLock(a) => g.owner.entry(a).or_default().0 = Some(t),
            St::WantRead(a) => g.owner.entry(a).or_default().1.push(t),
            _ => {}
        }
        g.st[t] = St::Running;
        g.current = Some(t);
        self.cv.notify_all();
    }

    fn wait_turn(&self, mut g: std::sync::MutexGuard<'_, Inner>, me: usize) {
        while g.current != Some(me) {
            if g.deadlock {
                drop(g);
                // unwind out of the blocked operation; hooks are no-ops from now on
                panic!("vsched: deadlock");
            }
            g = self.cv.wait(g).unwrap();
        }
    }

    fn start(&self, me: usize) {
        let mut g = self.m.lock().unwrap();
        g.st[me] = St::Ready;
        if g.st.iter().all(|s| *s != St::NotStarted) && g.current.is_none() {
            self.schedule(&mut g);
        }
        self.wait_turn(g, me);
    }

    fn point(&self, me: usize, label: &'static str, st: St) {
        let mut g = self.m.lock().unwrap();
        if g.deadlock {
            return;
        }
        g.trace.push((me, label));
        g.st[me] = st;
        self.schedule(&mut g);
        self.wait_turn(g, me);
    }

    fn released(&self, me: usize, addr: usize) {
        let mut g = self.m.lock().unwrap();
        if let Some((x, r)) = g.owner.get_mut(&addr) {
            if *x == Some(me) {
                *x = None;
            } else if let Some(p) = r.iter().position(|t| *t == me) {
                r.remove(p);
            }
            if x.is_none() && r.is_empty() {
                g.owner.remove(&addr);
            }
        }
        if g.deadlock {
            return;
        }
        if std::thread::panicking() {
            // a guard dropped while unwinding: record, but never block inside a drop during a panic
            g.trace.push((me, "released-while-unwinding"));
            return;
        }
        g.trace.push((me, "released"));
        g.st[me] = St::Ready;
        self.schedule(&mut g);
        self.wait_turn(g, me);
    }

    fn finish(&self, me: usize) {
        let mut g = self.m.lock().unwrap();
        g.trace.push((me, "finish"));
        g.st[me] = St::Finished;
        if g.deadlock {
            return;
        }
        self.schedule(&mut g);
    }
}

fn cur() -> Option<(Arc<Sched>, usize)> {
    let t = TID.with(|t| t.get())?;
    let s = SCHED.lock().unwrap_or_else(|e| e.into_inner()).clone()?;
    Some((s, t))
}

fn hook(kind: u32, id: usize) {
    if let Some((s, me)) = cur() {
        match kind {
            liquid_core::verif_hooks::LOCK_ACQUIRE => s.point(me, "acquire", St::WantLock(id)),
            liquid_core::verif_hooks::LOCK_RELEASED => s.released(me, id),
            liquid_core::verif_hooks::RW_READ_ACQUIRE => s.point(me, "acquire-read", St::WantRead(id)),
            liquid_core::verif_hooks::ATOMIC_OP => s.point(me, "atomic", St::Ready),
            liquid_core::verif_hooks::TRY_LOCK => s.point(me, "try-lock", St::Ready),
            // a successful try_* acquisition: record ownership, no scheduling decision
            liquid_core::verif_hooks::TRY_ACQUIRED => s.m.lock().unwrap_or_else(|e| e.into_inner()).owner.entry(id).or_default().0 = Some(me),
            liquid_core::verif_hooks::TRY_ACQUIRED_READ => s.m.lock().unwrap_or_else(|e| e.into_inner()).owner.entry(id).or_default().1.push(me),
            _ => {}
        }
    }
}

fn yield_point(label: &'static str) {
    if let Some((s, me)) = cur() {
        s.point(me, label, St::Ready);
    }
}

// ------------------------------------------------------------------ plugin-API scheduling points

#[derive(Clone, Debug, Default)]
struct YieldTag;
#[derive(Debug)]
struct YieldR;
impl liquid_core::TagReflection for YieldTag {
    fn tag(&self) -> &str {
        "yield"
    }
    fn description(&self) -> &str {
        ""
    }
}
impl liquid_core::ParseTag for YieldTag {
    fn parse(&self, mut a: liquid_core::TagTokenIter<'_>, _o: &liquid_core::Language) -> liquid_core::Result<Box<dyn liquid_core::Renderable>> {
        a.expect_nothing()?;
        Ok(Box::new(YieldR))
    }
    fn reflection(&self) -> &dyn liquid_core::TagReflection {
        self
    }
}
impl liquid_core::Renderable for YieldR {
    fn render_to(&self, _w: &mut dyn Write, _r: &dyn liquid_core::Runtime) -> liquid_core::Result<()> {
        yield_point("yield");
        Ok(())
    }
}

/// `{{ x | yf }}`: a scheduling point in the middle of an expression (between two filters)
#[derive(Clone, liquid_core::ParseFilter, liquid_core::FilterReflection)]
#[filter(name = "yf", description = "harness: scheduling point inside a filter chain", parsed(YieldFilter))]
struct YieldF;

#[derive(Debug, Default, liquid_core::Display_filter)]
#[name = "yf"]
struct YieldFilter;

impl liquid_core::Filter for YieldFilter {
    fn evaluate(&self, input: &dyn liquid_core::ValueView, _runtime: &dyn liquid_core::Runtime) -> liquid_core::Result<liquid_core::Value> {
        yield_point("filter");
        Ok(input.to_value())
    }
}

#[derive(Debug, Default, Clone)]
struct Src(HashMap<String, String>);
impl liquid::partials::PartialSource for Src {
    fn contains(&self, n: &str) -> bool {
        self.0.contains_key(n)
    }
    fn names(&self) -> Vec<&str> {
        self.0.keys().map(|s| s.as_str()).collect()
    }
    fn try_get<'a>(&'a self, n: &str) -> Option<std::borrow::Cow<'a, str>> {
        // called by the lazy store while it holds the cache lock, right before compiling
        yield_point("source");
        self.0.get(n).map(|s| s.as_str().into())
    }
}

// ------------------------------------------------------------------ the shared world and the operations

const PARTIALS: [(&str, &str); 8] = [
    // recurses 64 levels through include: every level holds its own handle on the one compiled partial
    ("rec", "{% assign d = d | plus: 1 %}{% if d < 64 %}{% include 'rec' %}{% else %}bottom{{ d }}{% endif %}"),
    ("m", "m{% cycle 'a', 'b' %}"),
    // `m` exists in both spellings, `r` only with the extension that `render` falls back to
    ("m.liquid", "m-with-extension"),
    ("r.liquid", "r{% cycle 'a', 'b' %}"),
    ("p", "[{% cycle 'a', 'b', 'c' %}{% yield %}{% cycle 'a', 'b', 'c' %}{% increment pc %}]"),
    ("bad", "{% if %}{{ !! }}"),
    ("q", "<{% include 'p' %}{% yield %}{% ifchanged %}q{% endifchanged %}>"),
    ("boom", "pre{% yield %}{{ undefined_in_partial }}post"),
];

const TEMPLATES: [&str; 14] = [
    // 0: includes the lazily compiled partial twice
    "A{% yield %}{% include 'p' %}{% yield %}{% increment c %}{% yield %}{% include 'p' %}",
    // 1: broken partial
    "B{% yield %}{% include 'bad' %}after",
    // 2: stateful constructs
    "{% for i in (1..3) %}{% cycle 'x', 'y' %}{% yield %}{% increment n %}{% ifchanged %}{{ i }}{% endifchanged %}{% capture c %}{{ i }}{% yield %}c{% endcapture %}{{ c }}{% if i == 2 %}{% break %}{% endif %}{% endfor %}|{% increment n %}",
    // 3: nested lazily compiled partials, render and include
    "C{% render 'q' %}{% yield %}{% include 'q' %}",
    // 4: fails mid-render after touching a partial
    "D{% include 'p' %}{% yield %}{% include 'boom' %}never",
    // 5: missing partial through a dynamic name
    "E{% yield %}{% include name %}",
    // 6: minimal
    "{% include 'm' %}{% yield %}{% include 'm' %}",
    // 7: per-render data and bindings (rendered concurrently with different data)
    "{{ who | yf | append: who | yf | upcase }}{% yield %}{% assign x = who | yf | downcase %}{% yield %}{{ x }}{% capture c %}{{ who }}{% yield %}{% cycle 'p', 'q' %}{% endcapture %}{{ c }}{% increment n %}{% for i in list %}{% yield %}{{ i }}{{ who }}{% endfor %}",
    // 8: every argument position that a renderable might be tempted to memoise is dynamic (partial name,
    //    loop bounds and attributes, cycle group, case target, date format) and differs between the two data objects;
    //    the whole body runs twice per render so that every renderable instance is executed twice
    "{% for k in (1..2) %}{% include which %}{% yield %}{% for i in (1..n) limit: lim %}{{ i }}{% cycle who: 'a', 'b' %}{% endfor %}{% case who %}{% when 'A' %}isA{% when 'B' %}isB{% endcase %}{% yield %}{{ ts | date: fmt }}{% tablerow i in list cols: n %}{{ i }}{% endtablerow %}{% endfor %}",
    // 9: the same dynamic include alone, executed twice by each render (state memoised inside a renderable
    //    only matters from its second execution on)
    "{% for k in (1..2) %}{% include which %}{% yield %}{% endfor %}",
    // 10: break / continue with text *after* the interrupt in the same iteration, and after the loop
    //     (an interrupt that is noticed late, or by the wrong render, prints the text)
    "{% for i in (1..3) %}{{ i }}{% if i == 2 %}{% continue %}{% endif %}a{% endfor %}|{% for i in (1..3) %}{% if i == 2 %}{% break %}{% endif %}b{% yield %}{% endfor %}|{% for i in (1..2) %}{% for j in (1..2) %}{% break %}x{% endfor %}y{% endfor %}z",
    // 11: parsed concurrently by two threads (never parsed before in this world): named and unnamed cycle groups,
    //     filters with arguments, nested blocks, an include - anything the *parser* might intern, cache or number
    "{% cycle 'g': 'a', 'b' %}-{% cycle 'g': 'a', 'b' %}|{% cycle 'h': 1, 2 %}{% cycle 'h': 1, 2 %}|{% cycle 'x', 'y' %}{% cycle 'x', 'y' %}|{% for i in (1..2) %}{% cycle 'g': 'a', 'b' %}{{ i | plus: 1 | append: who }}{% endfor %}{% include 'm' %}",
    // 12: a render tag whose partial name is dynamic and resolves differently per data object (bare name that
    //     also exists with the extension / name that exists only with the extension), executed twice per render
    "{% for k in (1..2) %}{% render rwhich %}{% yield %}{% endfor %}",
    // 13: a partial that includes itself 64 levels deep (anything counted per shared partial - handles, depth,
    //     budgets - adds up across the threads rendering it at the same time)
    "{% assign d = 0 %}{% include 'rec' %}|{{ d }}",
];

const DEEP_IDX: usize = TEMPLATES.len();
const FIRST_PARSED_BY_THE_THREADS: [usize; 2] = [11, DEEP_IDX];
/// Template DEEP_IDX (the one after the constant ones) is generated: DEEP nested blocks (if / for / unless in turn) around one output.  Anything
/// the parser counts, pools or limits *per parse* (nesting depth, node budgets, arenas) but keeps
/// where every parse through the same parser sees it shows up when two such parses overlap.
const DEEP: usize = 64;
const N_TEMPLATES: usize = TEMPLATES.len() + 1;

fn template_text(i: usize) -> &'static str {
    static DEEP_TEXT: std::sync::OnceLock<String> = std::sync::OnceLock::new();
    if i < TEMPLATES.len() {
        return TEMPLATES[i];
    }
    DEEP_TEXT.get_or_init(|| {
        let mut t = String::new();
        for k in 0..DEEP {
            t.push_str(["{% if who %}", "{% for i in (1..1) %}", "{% unless nope %}"][k % 3]);
        }
        t.push_str("[{{ who }}]");
        for k in (0..DEEP).rev() {
            t.push_str(["{% endif %}", "{% endfor %}", "{% endunless %}"][k % 3]);
        }
        t
    })
}

struct World {
    parser: liquid::Parser,
    templates: Vec<liquid::Template>,
    store: Box<dyn liquid_core::runtime::PartialStore + Send + Sync>,
    data: liquid::Object,
    data_b: liquid::Object,
}

fn source() -> Src {
    let mut src = Src::default();
    for (n, t) in PARTIALS {
        src.0.insert(n.to_string(), t.to_string());
    }
    src
}

fn language() -> Arc<liquid_core::parser::Language> {
    use liquid_lib::stdlib;
    let mut l = liquid_core::parser::Language::empty();
    l.blocks.register("if".to_string(), stdlib::IfBlock.into());
    l.blocks.register("ifchanged".to_string(), stdlib::IfChangedBlock.into());
    l.tags.register("include".to_string(), stdlib::IncludeTag.into());
    l.tags.register("cycle".to_string(), stdlib::CycleTag.into());
    l.tags.register("increment".to_string(), stdlib::IncrementTag.into());
    l.tags.register("yield".to_string(), Box::new(YieldTag));
    Arc::new(l)
}

fn world() -> World {
    use liquid_core::partials::PartialCompiler;
    let parser = liquid::ParserBuilder::with_stdlib().tag(YieldTag).filter(YieldF).partials(liquid::partials::LazyCompiler::new(source())).build().expect("parser builds");
    // templates listed in FIRST_PARSED_BY_THE_THREADS are not parsed here: the managed threads are the
    // first to show their text (and every name in it) to the shared parser
    let templates = (0..N_TEMPLATES).map(|i| parser.parse(if FIRST_PARSED_BY_THE_THREADS.contains(&i) { "" } else { template_text(i) }).expect("template parses")).collect();
    let store = liquid::partials::LazyCompiler::new(source()).compile(language()).expect("store compiles");
    let mut data = liquid::Object::new();
    data.insert("name".into(), liquid::model::Value::scalar("missing"));
    data.insert("who".into(), liquid::model::Value::scalar("A"));
    data.insert("list".into(), liquid::model::Value::Array(vec![liquid::model::Value::scalar(1i64), liquid::model::Value::scalar(2i64)]));
    data.insert("which".into(), liquid::model::Value::scalar("m"));
    data.insert("rwhich".into(), liquid::model::Value::scalar("m"));
    data.insert("n".into(), liquid::model::Value::scalar(3i64));
    data.insert("lim".into(), liquid::model::Value::scalar(2i64));
    data.insert("ts".into(), liquid::model::Value::scalar("2020-02-29 23:59:59 +0530"));
    data.insert("fmt".into(), liquid::model::Value::scalar("%Y"));
    let mut data_b = liquid::Object::new();
    data_b.insert("who".into(), liquid::model::Value::scalar("B"));
    data_b.insert("list".into(), liquid::model::Value::Array(vec![liquid::model::Value::scalar("x")]));
    data_b.insert("which".into(), liquid::model::Value::scalar("p"));
    data_b.insert("rwhich".into(), liquid::model::Value::scalar("r"));
    data_b.insert("n".into(), liquid::model::Value::scalar(2i64));
    data_b.insert("lim".into(), liquid::model::Value::scalar(5i64));
    data_b.insert("ts".into(), liquid::model::Value::scalar("1999-12-31 00:00:01 -0330"));
    data_b.insert("fmt".into(), liquid::model::Value::scalar("%j"));
    World { parser, templates, store, data, data_b }
}

#[derive(Clone, Copy, Debug, PartialEq)]
enum Op {
    Render(usize),
    /// render with the second data object
    RenderB(usize),
    /// parse the template text again with the shared parser, then render the fresh copy
    ParseRender(usize),
    /// parse only (also text that does not parse)
    Parse(&'static str),
    StoreGet(&'static str),
    StoreTryGet(&'static str),
}

fn first_line(e: &str) -> String {
    e.lines().find(|l| !l.trim().is_empty()).unwrap_or("").chars().take(120).collect()
}

fn render_store_partial(w: &World, r: Arc<dyn liquid_core::Renderable>) -> String {
    let rt = liquid_core::runtime::RuntimeBuilder::new().set_partials(w.store.as_ref()).build();
    let mut buf = Vec::new();
    match r.render_to(&mut buf, &rt) {
        Ok(()) => format!("ok:{}", String::from_utf8_lossy(&buf)),
        Err(e) => format!("err:{}", first_line(&e.to_string())),
    }
}

fn call(w: &World, op: Op) -> String {
    let r = std::panic::catch_unwind(std::panic::AssertUnwindSafe(|| match op {
        Op::Render(i) => match w.templates[i].render(&w.data) {
            Ok(s) => format!("ok:{s}"),
            Err(e) => format!("err:{}", first_line(&e.to_string())),
        },
        Op::RenderB(i) => match w.templates[i].render(&w.data_b) {
            Ok(s) => format!("ok:{s}"),
            Err(e) => format!("err:{}", first_line(&e.to_string())),
        },
        Op::ParseRender(i) => match w.parser.parse(template_text(i)) {
            Ok(t) => match t.render(&w.data) {
                Ok(s) => format!("ok:{s}"),
                Err(e) => format!("err:{}", first_line(&e.to_string())),
            },
            Err(e) => format!("parse-err:{}", first_line(&e.to_string())),
        },
        Op::Parse(text) => match w.parser.parse(text) {
            Ok(_) => "parsed".to_string(),
            Err(e) => format!("parse-err:{}", first_line(&e.to_string())),
        },
        Op::StoreGet(n) => match w.store.get(n) {
            Ok(r) => render_store_partial(w, r),
            Err(e) => format!("get-err:{}", first_line(&e.to_string())),
        },
        Op::StoreTryGet(n) => match w.store.try_get(n) {
            Some(r) => render_store_partial(w, r),
            None => "none".to_string(),
        },
    }));
    match r {
        Ok(s) => s,
        Err(p) => {
            let m = p.downcast_ref::<&str>().map(|s| s.to_string()).or_else(|| p.downcast_ref::<String>().cloned()).unwrap_or_default();
            format!("PANIC:{m}")
        }
    }
}

struct Harness {
    name: &'static str,
    what: &'static str,
    plan: Vec<Vec<Op>>,
}

fn harnesses() -> Vec<Harness> {
    vec![
        Harness { name: "H0", what: "two threads, one call each, smallest template touching a not-yet-compiled partial (the thorough tier explores it without a preemption bound)", plan: vec![vec![Op::Render(6)], vec![Op::Render(6)]] },
        Harness { name: "H1", what: "two threads render the same template including the same not-yet-compiled partial", plan: vec![vec![Op::Render(0)], vec![Op::Render(0)]] },
        Harness { name: "H2", what: "a valid and a broken partial first-touched by different threads, then swapped", plan: vec![vec![Op::Render(0), Op::Render(1)], vec![Op::Render(1), Op::Render(0)]] },
        Harness { name: "H3", what: "renders with cycle/increment/ifchanged/capture/break while another thread parses with the same parser", plan: vec![vec![Op::Render(2), Op::Render(3)], vec![Op::ParseRender(2), Op::Parse("{% if %}{{ !! }}")]] },
        Harness { name: "H4", what: "three threads, one partial, through get, try_get and include", plan: vec![vec![Op::StoreGet("p"), Op::StoreTryGet("bad")], vec![Op::StoreTryGet("p"), Op::StoreGet("bad")], vec![Op::StoreGet("q")]] },
        Harness { name: "H6", what: "one template rendered concurrently with two different data objects (bindings, capture, cycle, counters, loops must not cross over)", plan: vec![vec![Op::Render(7)], vec![Op::RenderB(7)]] },
        Harness { name: "H7", what: "one template whose include name is dynamic, rendered concurrently with data naming different partials (state memoised inside the include renderable would cross over)", plan: vec![vec![Op::Render(9)], vec![Op::RenderB(9)]] },
        Harness { name: "H8", what: "one template with every argument position dynamic (partial name, range bound, limit, cycle group, case target, date format, cols), two data objects", plan: vec![vec![Op::Render(8)], vec![Op::RenderB(8)]] },
        Harness { name: "H9", what: "two threads render a template whose loops break / continue with text after the interrupt (interrupt state must be per render)", plan: vec![vec![Op::Render(10)], vec![Op::Render(10)]] },
        Harness { name: "H10", what: "four threads first-touch the same not-yet-compiled partial at once (more contenders than any other harness)", plan: vec![vec![Op::Render(6)], vec![Op::Render(6)], vec![Op::StoreTryGet("m")], vec![Op::Render(6)]] },
        Harness { name: "H11", what: "two threads parse the same never-seen template text with the shared parser at once, then render their copies (state the parser keeps across parse calls: interning, numbering, caches)", plan: vec![vec![Op::ParseRender(11)], vec![Op::ParseRender(11)]] },
        Harness { name: "H12", what: "two threads parse *different* texts with the shared parser, each twice (anything the parser remembers between parse calls must be keyed correctly and updated atomically)", plan: vec![vec![Op::ParseRender(6), Op::ParseRender(6)], vec![Op::ParseRender(10), Op::ParseRender(10)]] },
        Harness { name: "H13", what: "two threads parse (then render) a template nested 64 blocks deep with the shared parser at once (per-parse counters, limits or pools kept where all parses through one parser see them)", plan: vec![vec![Op::ParseRender(DEEP_IDX)], vec![Op::ParseRender(DEEP_IDX)]] },
        Harness { name: "H14", what: "one template whose render tag names its partial dynamically: one data object names a partial stored under both spellings, the other a partial stored only with the extension (anything the tag learns about name resolution in one execution must not steer another)", plan: vec![vec![Op::Render(12)], vec![Op::RenderB(12)]] },
        Harness { name: "H15", what: "two threads render a template whose partial includes itself 64 levels deep (per-partial counts such as handle counts or nesting budgets must not add up across threads)", plan: vec![vec![Op::Render(13)], vec![Op::Render(13)]] },
        Harness { name: "H5", what: "a render that fails midway (partial error, missing partial) while another renders", plan: vec![vec![Op::Render(4)], vec![Op::Render(3)], vec![Op::Render(5)]] },
    ]
}

struct Exec {
    choices: Vec<Choice>,
    results: Vec<Vec<String>>,
    later: Vec<Vec<String>>,
    trace: Vec<(usize, &'static str)>,
    deadlock: bool,
}

enum RunErr {
    Stuck(String),
    Divergence(String),
}

fn run(prefix: Vec<usize>, plan: &[Vec<Op>]) -> Result<Exec, RunErr> {
    let w = Arc::new(world());
    let s = Sched::new(plan.len(), prefix.clone());
    *SCHED.lock().unwrap_or_else(|e| e.into_inner()) = Some(s.clone());
    let (tx, rx) = std::sync::mpsc::channel::<(usize, Vec<String>)>();
    let mut hs = vec![];
    for (tid, ops) in plan.iter().enumerate() {
        let (s, w, ops, tx) = (s.clone(), w.clone(), ops.clone(), tx.clone());
        hs.push(std::thread::spawn(move || {
            TID.with(|t| t.set(Some(tid)));
            let r = std::panic::catch_unwind(std::panic::AssertUnwindSafe(|| {
                s.start(tid);
                let mut out = vec![];
                for op in ops {
                    yield_point("call");
                    out.push(call(&w, op));
                    yield_point("return");
                }
                out
            }));
            let out = r.unwrap_or_else(|_| vec!["PANIC:thread".to_string()]);
            s.finish(tid);
            let _ = tx.send((tid, out));
        }));
    }
    drop(tx);
    let mut results = vec![Vec::new(); plan.len()];
    for _ in 0..plan.len() {
        match rx.recv_timeout(Duration::from_secs(120)) {
            Ok((tid, out)) => results[tid] = out,
            Err(_) => {
                let g = s.m.lock().unwrap_or_else(|e| e.into_inner());
                if g.deadlock {
                    break;
                }
                return Err(RunErr::Stuck(format!("a managed thread did not reach its next scheduling point within 120 s (prefix {prefix:?}, trace so far {:?}): some blocking operation is not owned by the scheduler", g.trace)));
            }
        }
    }
    let deadlock = s.m.lock().unwrap_or_else(|e| e.into_inner()).deadlock;
    if !deadlock {
        for h in hs {
            let _ = h.join();
        }
    }
    *SCHED.lock().unwrap_or_else(|e| e.into_inner()) = None;
    // later use: every call again, sequentially, on the same shared objects
    let later = if deadlock { vec![] } else { plan.iter().map(|ops| ops.iter().map(|op| call(&w, *op)).collect()).collect() };
    let g = s.m.lock().unwrap_or_else(|e| e.into_inner());
    if let Some(d) = &g.divergence {
        return Err(RunErr::Divergence(d.clone()));
    }
    Ok(Exec { choices: g.choices.clone(), results, later, trace: g.trace.clone(), deadlock })
}

/// sequential baseline: each call alone on a fresh world
fn baseline(plan: &[Vec<Op>]) -> Vec<Vec<String>> {
    plan.iter().map(|ops| ops.iter().map(|op| call(&world(), *op)).collect()).collect()
}

/// What a sequential re-run on the *used* world should give: the same as the
/// baseline (results are functions of template, partials and data alone).
fn explore(report: &Report, h: &Harness, bound: usize, unbounded: bool) -> Result<(), String> {
    let base = baseline(&h.plan);
    let base2 = baseline(&h.plan);
    if base != base2 {
        return Err(format!("{}: sequential baseline is not deterministic", h.name));
    }
    let mut stack: Vec<Vec<usize>> = vec![vec![]];
    let (mut n, mut points, mut maxpts) = (0u64, 0u64, 0usize);
    let mut distinct: HashSet<Vec<(usize, &'static str)>> = HashSet::new();
    let mut first = true;
    let t0 = std::time::Instant::now();
    while let Some(prefix) = stack.pop() {
        let plen = prefix.len();
        let x = match run(prefix.clone(), &h.plan) {
            Ok(x) => x,
            Err(RunErr::Stuck(m)) | Err(RunErr::Divergence(m)) => return Err(format!("{}: {m}", h.name)),
        };
        n += 1;
        report.eval();
        points += x.trace.len() as u64;
        maxpts = maxpts.max(x.trace.len());
        if distinct.len() < 3_000_000 {
            distinct.insert(x.trace.clone());
        }
        let sched: Vec<usize> = x.choices.iter().map(|c| c.chosen_idx).collect();
        let mut problem: Option<(&str, String)> = None;
        if x.deadlock {
            problem = Some(("deadlock", "no enabled thread while some thread is unfinished".into()));
        } else if x.results.iter().flatten().any(|r| r.starts_with("PANIC")) {
            problem = Some(("panic", format!("results {:?}", x.results)));
        } else if x.results != base {
            problem = Some(("result-differs-from-sequential", format!("concurrent results {:?} but sequential baseline {:?}", x.results, base)));
        } else if x.later != base {
            problem = Some(("later-use-differs", format!("sequential re-run on the used objects gives {:?} but baseline {:?}", x.later, base)));
        }
        // determinism of replay: the first schedule of every harness and every failing schedule run twice
        if first || problem.is_some() {
            first = false;
            let y = match run(sched.clone(), &h.plan) {
                Ok(y) => y,
                Err(RunErr::Stuck(m)) | Err(RunErr::Divergence(m)) => return Err(format!("{}: {m}", h.name)),
            };
            if y.trace != x.trace || y.results != x.results {
                return Err(format!("{}: replaying schedule {sched:?} gave a different trace or results: the harness does not own all nondeterminism", h.name));
            }
        }
        if let Some((clause, detail)) = problem {
            report.violation(
                &format!("C20|{}|{clause}", h.name),
                sched.len() as u64 * 1000 + n.min(999),
                json!({"kind":"schedule","harness":h.name,"what":h.what,"plan":format!("{:?}", h.plan),"schedule":sched,"preemption_bound":bound,"trace":x.trace.iter().map(|(t,l)| format!("T{t}:{l}")).collect::<Vec<_>>(),"results":x.results,"baseline":base}),
                format!("{} schedule {sched:?}: {detail}", h.name),
            );
        }
        let mut pre = vec![0usize; x.choices.len() + 1];
        for (i, c) in x.choices.iter().enumerate() {
            pre[i + 1] = pre[i] + if c.running_enabled && c.chosen_idx != 0 { 1 } else { 0 };
        }
        for i in plen..x.choices.len() {
            let c = &x.choices[i];
            for alt in 1..c.enabled.len() {
                let cost = pre[i] + if c.running_enabled { 1 } else { 0 };
                if !unbounded && cost > bound {
                    continue;
                }
                let mut p: Vec<usize> = x.choices[..i].iter().map(|c| c.chosen_idx).collect();
                p.push(alt);
                stack.push(p);
            }
        }
    }
    report.states.fetch_add(distinct.len() as u64, std::sync::atomic::Ordering::Relaxed);
    report.transitions.fetch_add(points, std::sync::atomic::Ordering::Relaxed);
    report.traces.fetch_add(n, std::sync::atomic::Ordering::Relaxed);
    report.nontrivial.fetch_add(distinct.len() as u64, std::sync::atomic::Ordering::Relaxed);
    for b in base.iter().flatten() {
        report.outcome(b);
    }
    report.family(FamilyStat {
        name: format!("{} / {} threads / preemption bound {}", h.name, h.plan.len(), if unbounded { "unbounded".to_string() } else { bound.to_string() }),
        cases: n,
        nontrivial: distinct.len() as u64,
        skipped: 0,
        note: format!("{}; schedules={n} distinct interleavings={} max scheduling points per execution={maxpts} ({:.1}s)", h.what, distinct.len(), t0.elapsed().as_secs_f64()),
    });
    if distinct.len() < 2 && h.plan.len() > 1 {
        return Err(format!("{}: only one distinct interleaving explored: nothing collided (vacuous)", h.name));
    }
    Ok(())
}

/// Labelled sampling, not coverage: the same bodies free-running on barrier-released threads.
fn stress(report: &Report, rounds: usize) {
    let hs = harnesses();
    let mut n = 0u64;
    for h in hs.iter().take(3) {
        let base = baseline(&h.plan);
        for round in 0..rounds {
            let w = Arc::new(world());
            let copies = 8;
            let barrier = Arc::new(std::sync::Barrier::new(h.plan.len() * copies));
            let mut handles = vec![];
            for c in 0..copies {
                for (tid, ops) in h.plan.iter().enumerate() {
                    let (w, ops, barrier) = (w.clone(), ops.clone(), barrier.clone());
                    handles.push((tid, std::thread::spawn(move || {
                        barrier.wait();
                        if (c + tid) % 3 == 1 {
                            std::thread::yield_now();
                        }
                        ops.iter().map(|op| call(&w, *op)).collect::<Vec<_>>()
                    })));
                }
            }
            for (tid, hd) in handles {
                n += 1;
                let got = hd.join().unwrap_or_else(|_| vec!["PANIC:thread".into()]);
                if got != base[tid] {
                    report.violation(&format!("C20|{}|stress-result-differs", h.name), round as u64, json!({"kind":"stress","harness":h.name,"results":got,"baseline":base[tid]}), format!("free-running threads: {got:?} vs sequential {:?}", base[tid]));
                }
            }
        }
    }
    report.extra("auxiliary_stress_sampling", json!({"label": "SAMPLING, not claimed as coverage", "thread_runs": n}));
}

fn main() {
    let args: Vec<String> = std::env::args().collect();
    if args.len() >= 4 && args[1] == "probe" {
        // measurement aid: lqv-sched probe <harness index> <bound|u> : prints schedule counts
        std::panic::set_hook(Box::new(|_| {}));
        liquid_core::verif_hooks::install(Some(hook));
        let report = Report::new("C20", Tier::Quick, "model_checking");
        let hs = harnesses();
        let hi: usize = args[2].parse().unwrap();
        let (b, u) = if args[3] == "u" { (0, true) } else { (args[3].parse().unwrap(), false) };
        let r = explore(&report, &hs[hi], b, u);
        eprintln!("probe result: {r:?}");
        return;
    }
    if args.len() >= 3 && args[1] == "replay" {
        // re-run one recorded schedule
        std::panic::set_hook(Box::new(|_| {}));
        liquid_core::verif_hooks::install(Some(hook));
        let text = std::fs::read_to_string(&args[2]).expect("replay file");
        let j: serde_json::Value = serde_json::from_str(&text).expect("json");
        let w = &j["witness"];
        let hs = harnesses();
        let Some(h) = hs.iter().find(|h| Some(h.name) == w["harness"].as_str()) else {
            eprintln!("unknown harness in {}", args[2]);
            std::process::exit(2);
        };
        let sched: Vec<usize> = w["schedule"].as_array().map(|a| a.iter().filter_map(|x| x.as_u64().map(|x| x as usize)).collect()).unwrap_or_default();
        println!("recorded : {}", j["detail"].as_str().unwrap_or("?"));
        match run(sched.clone(), &h.plan) {
            Ok(x) => {
                println!("schedule : {sched:?}");
                println!("trace    : {:?}", x.trace.iter().map(|(t, l)| format!("T{t}:{l}")).collect::<Vec<_>>());
                println!("results  : {:?}", x.results);
                println!("baseline : {:?}", baseline(&h.plan));
                println!("deadlock : {}", x.deadlock);
            }
            Err(RunErr::Stuck(m)) | Err(RunErr::Divergence(m)) => println!("machinery: {m}"),
        }
        return;
    }
    if args.len() >= 4 && args[1] == "worker" {
        std::panic::set_hook(Box::new(|_| {}));
        liquid_core::verif_hooks::install(Some(hook));
        let report = Report::new("C20", Tier::Quick, "model_checking");
        let hs = harnesses();
        let hi: usize = args[2].parse().unwrap();
        let (b, u) = if args[3] == "u" { (0, true) } else { (args[3].parse().unwrap(), false) };
        if let Err(m) = explore(&report, &hs[hi], b, u) {
            eprintln!("[C20] machinery failure: {m}");
            std::process::exit(2);
        }
        println!("{}", report.export());
        return;
    }
    if args.len() < 3 || args[1] != "run" || args[2] != "C20" {
        eprintln!("usage: lqv-sched run C20 quick|thorough");
        std::process::exit(2);
    }
    let tier = if args.get(3).map(|s| s.as_str()) == Some("thorough") { Tier::Thorough } else { Tier::Quick };
    // panics inside managed threads are part of the verdict, not noise on stderr
    std::panic::set_hook(Box::new(|_| {}));
    liquid_core::verif_hooks::install(Some(hook));
    let report = Report::new("C20", tier, "model_checking");
    report.set_rule("stateless preemption-bounded DFS over all interleavings of 2-3 real threads (1-2 API calls each on shared Parser/Template/PartialStore objects built with the lazy compiler) at the scheduling points: acquire / release of EVERY Mutex and RwLock and every atomic operation of the three crates (the check links a copy of the working tree in which std::sync is redirected to the verif-hooks shim; today that is the lazy cache lock), PartialSource::try_get inside the critical section, a {% yield %} tag between template elements, and before/after every API call; every execution rebuilds the shared objects and replays a choice prefix; states = distinct point interleavings, transitions = scheduling points executed, traces_validated = schedules whose every result was compared with the sequential baseline; non-trivial = distinct interleavings");
    report.assume("sequentially consistent interleavings only (atomics are interleaved at operation granularity, weak memory orderings are not modelled); Arc, LazyLock/OnceLock and thread_local are std's and are not scheduling points");
    report.assume("scheduling points at the lock, inside the critical section and between elements suffice because the shared types are Send + Sync by construction and contain no other cross-thread channel");
    let instr_path = format!("{}/harness/sched/instr/instrument.json", lqv_report::verif_dir());
    match std::fs::read_to_string(&instr_path).ok().and_then(|t| serde_json::from_str::<serde_json::Value>(&t).ok()) {
        Some(j) => {
            eprintln!("[C20] instrumentation: mode={} files_rewritten={} replacements={} primitives={} unhandled={}", j["mode"].as_str().unwrap_or("?"), j["files_rewritten"], j["replacements"], j["primitives"], j["unhandled"]);
            report.extra("instrumentation", j);
        }
        None => {
            eprintln!("[C20] machinery failure: {instr_path} missing or unreadable (run through ./check)");
            std::process::exit(2);
        }
    }
    let hs = harnesses();
    // (harness index, preemption bound, unbounded); bounds are iterated 0,1,..: the first
    // counterexample found has the fewest preemptions
    let tasks: Vec<(usize, usize, bool)> = if tier.thorough() {
        let mut t = vec![(0, 0, true)];
        for (hi, maxb) in [(1usize, 5usize), (2, 4), (3, 4), (4, 3), (5, 4), (6, 5), (7, 3), (8, 3), (9, 2), (10, 3), (11, 3), (12, 3), (13, 3), (14, 2), (15, 3)] {
            for b in 0..=maxb {
                t.push((hi, b, false));
            }
        }
        t
    } else {
        let mut t = vec![];
        for (hi, maxb) in [(0usize, 3usize), (1usize, 2usize), (2, 2), (3, 2), (4, 1), (5, 2), (6, 2), (7, 1), (8, 2), (9, 1), (10, 2), (11, 2), (12, 2), (13, 2), (14, 1), (15, 1)] {
            for b in 0..=maxb {
                t.push((hi, b, false));
            }
        }
        t
    };
    // every task runs in its own worker process (the scheduler is process-wide state); up to 16 at a time
    let exe = std::env::current_exe().expect("current exe");
    let maxpar = std::thread::available_parallelism().map(|n| n.get()).unwrap_or(4).min(16);
    let mut pending: std::collections::VecDeque<(usize, usize, bool)> = tasks.into_iter().collect();
    let mut running: Vec<(std::process::Child, (usize, usize, bool))> = Vec::new();
    let mut results: Vec<((usize, usize, bool), serde_json::Value)> = Vec::new();
    while !pending.is_empty() || !running.is_empty() {
        while running.len() < maxpar {
            let Some(t) = pending.pop_front() else { break };
            let child = std::process::Command::new(&exe)
                .args(["worker", &t.0.to_string(), &if t.2 { "u".to_string() } else { t.1.to_string() }])
                .stdout(std::process::Stdio::piped())
                .stderr(std::process::Stdio::inherit())
                .spawn()
                .expect("spawn worker");
            running.push((child, t));
        }
        let (child, t) = running.remove(0);
        let out = child.wait_with_output().expect("worker output");
        if !out.status.success() {
            eprintln!("[C20] machinery failure: worker {t:?} ended with {:?}", out.status);
            std::process::exit(2);
        }
        let text = String::from_utf8_lossy(&out.stdout);
        let line = text.lines().rev().find(|l| l.starts_with('{')).unwrap_or("{}");
        match serde_json::from_str::<serde_json::Value>(line) {
            Ok(j) => results.push((t, j)),
            Err(e) => {
                eprintln!("[C20] machinery failure: worker {t:?} output unreadable: {e}");
                std::process::exit(2);
            }
        }
    }
    results.sort_by_key(|(t, _)| *t);
    for (_, j) in &results {
        report.import(j);
    }
    stress(&report, if tier.thorough() { 200 } else { 20 });
    report.sample(json!({"harness": "H1", "plan": format!("{:?}", hs[0].plan), "schedule": [0, 1, 0, 1], "points": ["call", "yield", "acquire", "source", "released", "return", "finish"]}));
    std::process::exit(report.finish());
}
