//! `refliquid`: an independent, boring reference interpreter for the generated
//! program AST.  It never looks at the implementation.  Everything the
//! properties leave open evaluates to `Stop::Unspecified`; such programs are
//! skipped (and counted), never compared.

use crate::ast::*;
use crate::val::V;
use std::collections::{BTreeMap, HashMap};

#[derive(Clone, Debug, PartialEq)]
pub enum Stop {
    /// the render must return an error
    Error(String),
    /// the properties do not pin the behaviour
    Unspecified(String),
}

pub type R<T> = Result<T, Stop>;

fn err<T>(m: &str) -> R<T> {
    Err(Stop::Error(m.to_string()))
}
fn unspec<T>(m: &str) -> R<T> {
    Err(Stop::Unspecified(m.to_string()))
}

#[derive(Clone, Debug)]
pub enum Partial {
    Ok(Vec<Stmt>),
    Broken,
}

#[derive(Clone, Copy, Debug, PartialEq, Eq)]
pub enum Interrupt {
    Break,
    Continue,
}

#[derive(Clone, Debug, Default)]
struct Regs {
    interrupt: Option<Interrupt>,
    cycles: HashMap<String, usize>,
    ifchanged: Option<String>,
}

#[derive(Clone, Debug)]
enum Layer {
    /// loop variables, include arguments
    Plain(Vec<(String, V)>),
    /// render arguments; hides everything below; owns fresh registers
    Sandbox(Vec<(String, V)>, Box<Regs>),
    /// target of assign/capture
    Global(Vec<(String, V)>),
}

pub struct Interp<'a> {
    pub partials: &'a BTreeMap<String, Partial>,
    data: Vec<(String, V)>,
    counters: Vec<(String, i64)>,
    layers: Vec<Layer>,
    base_regs: Regs,
    pub out: String,
    /// tolerance switches
    pub strict_string_size_chars: bool,
}

fn get<'v>(m: &'v [(String, V)], k: &str) -> Option<&'v V> {
    m.iter().rev().find(|(n, _)| n == k).map(|(_, v)| v)
}

fn set(m: &mut Vec<(String, V)>, k: &str, v: V) {
    if let Some(e) = m.iter_mut().find(|(n, _)| n == k) {
        e.1 = v;
    } else {
        m.push((k.to_string(), v));
    }
}

pub fn render_value(v: &V) -> R<String> {
    Ok(match v {
        V::Nil => String::new(),
        V::Bool(b) => b.to_string(),
        V::Int(i) => i.to_string(),
        V::Float(f) => format!("{f}"),
        V::Str(s) => s.clone(),
        V::Date(y, m, d) => format!("{y:04}-{m:02}-{d:02}"),
        V::DateTime(s) => s.clone(),
        V::Arr(a) => {
            let mut s = String::new();
            for x in a {
                s.push_str(&render_value(x)?);
            }
            s
        }
        V::Obj(o) => {
            if o.len() > 1 {
                return unspec("printing a multi-key object (iteration order)");
            }
            let mut s = String::new();
            for (k, x) in o {
                s.push_str(k);
                s.push_str(&render_value(x)?);
            }
            s
        }
        V::Empty | V::Blank => String::new(),
    })
}

pub fn truthy(v: &V) -> R<bool> {
    Ok(match v {
        V::Nil => false,
        V::Bool(b) => *b,
        V::Empty | V::Blank => return unspec("truthiness of the empty/blank markers"),
        _ => true,
    })
}

fn is_blank_str(s: &str) -> bool {
    s.trim().is_empty()
}

/// Equality on the uncontroversial cells only.
pub fn ref_eq(a: &V, b: &V) -> R<bool> {
    use V::*;
    Ok(match (a, b) {
        (Nil, Nil) => true,
        (Int(x), Int(y)) => x == y,
        (Float(x), Float(y)) => x == y,
        (Int(x), Float(y)) | (Float(y), Int(x)) => {
            if x.unsigned_abs() <= (1u64 << 53) {
                (*x as f64) == *y
            } else if ((*x as f64) - *y).abs() >= 4096.0 {
                // far apart (the integer's own rounding to a double is below 1024): certainly different numbers
                false
            } else {
                return unspec("int/float equality beyond 2^53");
            }
        }
        (Str(x), Str(y)) => x == y,
        (Bool(x), Bool(y)) => x == y,
        (Str(s), Empty) | (Empty, Str(s)) => s.is_empty(),
        (Str(s), Blank) | (Blank, Str(s)) => is_blank_str(s),
        (Arr(x), Empty) | (Empty, Arr(x)) | (Arr(x), Blank) | (Blank, Arr(x)) => x.is_empty(),
        (Arr(x), Arr(y)) => {
            if x.len() != y.len() {
                false
            } else {
                let mut all = true;
                for (p, q) in x.iter().zip(y.iter()) {
                    if !ref_eq(p, q)? {
                        all = false;
                    }
                }
                all
            }
        }
        // objects: equal exactly when they have the same keys and equal members (a key only one of them has makes
        // them different, whatever it holds)
        (Obj(x), Obj(y)) => {
            let mut kx: Vec<&String> = x.iter().map(|(k, _)| k).collect();
            let mut ky: Vec<&String> = y.iter().map(|(k, _)| k).collect();
            kx.sort();
            ky.sort();
            if kx != ky {
                false
            } else {
                let mut all = true;
                for (k, p) in x {
                    let q = &y.iter().find(|(k2, _)| k2 == k).expect("same keys").1;
                    if !ref_eq(p, q)? {
                        all = false;
                    }
                }
                all
            }
        }
        (Obj(o), Empty) | (Empty, Obj(o)) => o.is_empty(),
        // different scalar kinds without a truthiness twist
        (Int(_), Str(_)) | (Str(_), Int(_)) | (Float(_), Str(_)) | (Str(_), Float(_)) => false,
        (Nil, Int(_)) | (Int(_), Nil) | (Nil, Str(_)) | (Str(_), Nil) | (Nil, Float(_)) | (Float(_), Nil) => false,
        (Nil, Arr(_)) | (Arr(_), Nil) => false,
        (Arr(_), Int(_)) | (Int(_), Arr(_)) | (Arr(_), Str(_)) | (Str(_), Arr(_)) => false,
        _ => return unspec("equality between these kinds"),
    })
}

/// Ordering on the uncontroversial cells only; `None` = not ordered.
pub fn ref_cmp(a: &V, b: &V) -> R<Option<std::cmp::Ordering>> {
    use V::*;
    Ok(match (a, b) {
        (Int(x), Int(y)) => Some(x.cmp(y)),
        (Float(x), Float(y)) => x.partial_cmp(y),
        (Int(x), Float(y)) => {
            if x.unsigned_abs() <= (1u64 << 53) || ((*x as f64) - *y).abs() >= 4096.0 {
                (*x as f64).partial_cmp(y)
            } else {
                return unspec("int/float ordering beyond 2^53");
            }
        }
        (Float(x), Int(y)) => {
            if y.unsigned_abs() <= (1u64 << 53) || (*x - (*y as f64)).abs() >= 4096.0 {
                x.partial_cmp(&(*y as f64))
            } else {
                return unspec("int/float ordering beyond 2^53");
            }
        }
        (Str(x), Str(y)) => Some(x.as_str().cmp(y.as_str())),
        (Nil, Nil) => None,
        (Int(_), Str(_)) | (Str(_), Int(_)) | (Nil, Int(_)) | (Int(_), Nil) | (Nil, Str(_)) | (Str(_), Nil) => None,
        _ => return unspec("ordering between these kinds"),
    })
}

pub fn ref_op(a: &V, op: Op, b: &V) -> R<bool> {
    use std::cmp::Ordering::*;
    Ok(match op {
        Op::Eq => ref_eq(a, b)?,
        Op::Ne | Op::Ne2 => !ref_eq(a, b)?,
        Op::Lt => ref_cmp(a, b)? == Some(Less),
        Op::Gt => ref_cmp(a, b)? == Some(Greater),
        Op::Le => matches!(ref_cmp(a, b)?, Some(Less) | Some(Equal)),
        Op::Ge => matches!(ref_cmp(a, b)?, Some(Greater) | Some(Equal)),
        Op::Contains => match (a, b) {
            (V::Str(s), V::Str(t)) => s.contains(t.as_str()),
            (V::Arr(xs), y) if y.is_scalar() || *y == V::Nil => {
                let mut found = false;
                for x in xs {
                    if ref_eq(x, y)? {
                        found = true;
                    }
                }
                found
            }
            (V::Obj(o), V::Str(k)) => o.iter().any(|(n, _)| n == k),
            _ => return unspec("contains between these kinds"),
        },
    })
}

/// One step of path resolution (C07 semantics). `Ok(None)` = the step does not exist.
pub fn step(v: &V, idx: &V, string_size_in_chars: bool) -> R<Option<V>> {
    match v {
        V::Arr(a) => match idx {
            V::Int(i) => {
                let len = a.len() as i64;
                let j = if *i >= 0 { *i } else { len + *i };
                if j >= 0 && j < len {
                    Ok(Some(a[j as usize].clone()))
                } else {
                    Ok(None)
                }
            }
            V::Str(s) => match s.as_str() {
                "first" => Ok(a.first().cloned()),
                "last" => Ok(a.last().cloned()),
                "size" => Ok(Some(V::Int(a.len() as i64))),
                other => {
                    if other.parse::<i64>().is_ok() {
                        unspec("string index that looks like an integer on an array")
                    } else {
                        Ok(None)
                    }
                }
            },
            _ => unspec("array index of this kind"),
        },
        V::Obj(o) => {
            let key = match idx {
                V::Str(s) => s.clone(),
                V::Int(i) => i.to_string(),
                _ => return unspec("object key of this kind"),
            };
            if let Some(x) = o.iter().find(|(k, _)| *k == key) {
                Ok(Some(x.1.clone()))
            } else if key == "size" {
                Ok(Some(V::Int(o.len() as i64)))
            } else if key == "first" || key == "last" {
                unspec("first/last of an object")
            } else {
                Ok(None)
            }
        }
        V::Str(s) => match idx {
            V::Str(k) if k == "size" => {
                if string_size_in_chars || s.is_ascii() {
                    Ok(Some(V::Int(s.chars().count() as i64)))
                } else {
                    unspec("size of a non-ASCII string")
                }
            }
            V::Str(k) if k == "first" || k == "last" => unspec("first/last of a string"),
            _ => Ok(None),
        },
        V::Nil => Ok(None),
        V::Int(_) | V::Float(_) | V::Bool(_) | V::Date(..) | V::DateTime(_) => match idx {
            V::Str(k) if k == "size" => unspec("size of a non-string scalar"),
            _ => Ok(None),
        },
        V::Empty | V::Blank => unspec("indexing a state marker"),
    }
}

impl<'a> Interp<'a> {
    pub fn new(partials: &'a BTreeMap<String, Partial>, data: &V) -> Interp<'a> {
        let data = match data {
            V::Obj(o) => o.clone(),
            _ => panic!("harness: data must be an object"),
        };
        Interp {
            partials,
            data,
            counters: Vec::new(),
            layers: vec![Layer::Global(Vec::new())],
            base_regs: Regs::default(),
            out: String::new(),
            strict_string_size_chars: true,
        }
    }

    pub fn run(mut self, prog: &[Stmt]) -> R<String> {
        self.block(prog)?;
        Ok(self.out)
    }

    fn regs(&mut self) -> &mut Regs {
        for l in self.layers.iter_mut().rev() {
            if let Layer::Sandbox(_, r) = l {
                return r;
            }
        }
        &mut self.base_regs
    }

    /// name resolution through the layers: innermost first; a sandbox stops the walk
    fn lookup_root(&self, name: &str) -> Option<V> {
        for l in self.layers.iter().rev() {
            match l {
                Layer::Plain(m) | Layer::Global(m) => {
                    if let Some(v) = get(m, name) {
                        return Some(v.clone());
                    }
                }
                Layer::Sandbox(m, _) => {
                    return get(m, name).cloned();
                }
            }
        }
        if let Some(v) = get(&self.data, name) {
            return Some(v.clone());
        }
        self.counters.iter().find(|(n, _)| n == name).map(|(_, c)| V::Int(*c))
    }

    fn set_global(&mut self, name: &str, v: V) {
        for l in self.layers.iter_mut().rev() {
            if let Layer::Global(m) = l {
                set(m, name, v);
                return;
            }
        }
        unreachable!("base global layer always exists");
    }

    /// `Ok(None)`: some step does not exist (failing lookup = error, optional = nil)
    fn try_eval(&mut self, e: &Expr) -> R<Option<V>> {
        match e {
            Expr::Lit(v) => Ok(Some(v.clone())),
            Expr::Var(name, steps) => {
                // indexes are evaluated first (they are part of the path)
                let mut idxs = Vec::new();
                for st in steps {
                    match st {
                        Step::Dot(k) => idxs.push(V::Str(k.clone())),
                        Step::Bracket(ex) => match self.try_eval(ex)? {
                            None => return Ok(None),
                            Some(v) => {
                                if !v.is_scalar() {
                                    // "Expected scalar": failing form errors, optional form is nil
                                    return Ok(None);
                                }
                                idxs.push(v)
                            }
                        },
                    }
                }
                let Some(mut cur) = self.lookup_root(name) else {
                    return Ok(None);
                };
                for i in idxs {
                    match step(&cur, &i, self.strict_string_size_chars)? {
                        Some(n) => cur = n,
                        None => return Ok(None),
                    }
                }
                Ok(Some(cur))
            }
        }
    }

    fn eval(&mut self, e: &Expr) -> R<V> {
        match self.try_eval(e)? {
            Some(v) => Ok(v),
            None => err(&format!("unknown variable or index in `{}`", e.print())),
        }
    }

    fn cond(&mut self, c: &Cond) -> R<bool> {
        match c {
            Cond::Truthy(e) => {
                let v = self.try_eval(e)?.unwrap_or(V::Nil);
                truthy(&v)
            }
            Cond::Bin(a, op, b) => {
                let x = self.eval(a)?;
                let y = self.eval(b)?;
                ref_op(&x, *op, &y)
            }
            Cond::And(a, b) => Ok(self.cond(a)? && self.cond(b)?),
            Cond::Or(a, b) => Ok(self.cond(a)? || self.cond(b)?),
        }
    }

    fn block(&mut self, stmts: &[Stmt]) -> R<()> {
        for st in stmts {
            self.stmt(st)?;
            if self.regs().interrupt.is_some() {
                break;
            }
        }
        Ok(())
    }

    fn capture_block(&mut self, stmts: &[Stmt]) -> R<String> {
        let saved = std::mem::take(&mut self.out);
        let r = self.block(stmts);
        let captured = std::mem::replace(&mut self.out, saved);
        r?;
        Ok(captured)
    }

    fn elements(&mut self, src: &Src) -> R<Vec<V>> {
        match src {
            Src::Expr(e) => {
                let v = self.eval(e)?;
                match v {
                    V::Arr(a) => Ok(a),
                    V::Obj(o) => {
                        if o.len() > 1 {
                            return unspec("iterating a multi-key object");
                        }
                        Ok(o.into_iter().map(|(k, v)| V::Arr(vec![V::Str(k), v])).collect())
                    }
                    V::Nil | V::Empty | V::Blank => Ok(vec![]),
                    _ => err("expected array"),
                }
            }
            Src::Range(a, b) => {
                let x = self.int_arg(a)?;
                let y = self.int_arg(b)?;
                if y.saturating_sub(x) > 100_000 {
                    return unspec("huge range");
                }
                Ok((x..=y).map(V::Int).collect())
            }
        }
    }

    fn int_arg(&mut self, e: &Expr) -> R<i64> {
        match self.eval(e)? {
            V::Int(i) => Ok(i),
            V::Str(s) => match s.parse::<i64>() {
                Ok(i) => Ok(i),
                Err(_) => err("expected whole number"),
            },
            _ => err("expected whole number"),
        }
    }

    fn window(&mut self, src: &Src, limit: &Option<Expr>, offset: &Option<Expr>, reversed: bool) -> R<Vec<V>> {
        let elems = self.elements(src)?;
        let limit = match limit {
            Some(e) => Some(self.int_arg(e)?),
            None => None,
        };
        let offset = match offset {
            Some(e) => self.int_arg(e)?,
            None => 0,
        };
        if offset < 0 || limit.map(|l| l < 0).unwrap_or(false) {
            return unspec("negative limit/offset");
        }
        let len = elems.len();
        let start = (offset as usize).min(len);
        let end = match limit {
            Some(l) => start.saturating_add(l as usize).min(len),
            None => len,
        };
        let mut w: Vec<V> = elems[start..end].to_vec();
        if reversed {
            w.reverse();
        }
        Ok(w)
    }

    fn forloop_obj(i: usize, n: usize, parent: Option<V>) -> V {
        let (i, n) = (i as i64, n as i64);
        let mut o = vec![
            ("length".to_string(), V::Int(n)),
            ("index0".to_string(), V::Int(i)),
            ("index".to_string(), V::Int(i + 1)),
            ("rindex0".to_string(), V::Int(n - i - 1)),
            ("rindex".to_string(), V::Int(n - i)),
            ("first".to_string(), V::Bool(i == 0)),
            ("last".to_string(), V::Bool(i == n - 1)),
        ];
        o.push(("parentloop".to_string(), parent.unwrap_or(V::Nil)));
        V::Obj(o)
    }

    fn stmt(&mut self, st: &Stmt) -> R<()> {
        match st {
            Stmt::Text(t) => self.out.push_str(t),
            Stmt::Raw(t) => self.out.push_str(t),
            Stmt::Comment(_) => {}
            Stmt::Out(e) => {
                let v = self.eval(e)?;
                let s = render_value(&v)?;
                self.out.push_str(&s);
            }
            Stmt::OutDump(e) => {
                let v = self.eval(e)?;
                self.out.push_str(&crate::cfgs::dump_v(&v));
            }
            Stmt::Assign(n, e) => {
                let v = self.eval(e)?;
                self.set_global(n, v);
            }
            Stmt::Capture(n, b) => {
                let s = self.capture_block(b)?;
                self.set_global(n, V::Str(s));
            }
            Stmt::Incr(_) | Stmt::Decr(_) if self.layers.iter().any(|l| matches!(l, Layer::Sandbox(..))) => {
                return unspec("increment/decrement inside a rendered (isolated) partial");
            }
            Stmt::Incr(n) => {
                let cur = self.counters.iter().find(|(k, _)| k == n).map(|(_, c)| *c).unwrap_or(0);
                self.out.push_str(&cur.to_string());
                self.set_counter(n, cur + 1);
            }
            Stmt::Decr(n) => {
                let cur = self.counters.iter().find(|(k, _)| k == n).map(|(_, c)| *c).unwrap_or(0);
                self.out.push_str(&(cur - 1).to_string());
                self.set_counter(n, cur - 1);
            }
            Stmt::Cycle(group, vals) => {
                if vals.is_empty() {
                    return err("cycle without values");
                }
                let key = match group {
                    Some(g) => format!("g:{g}"),
                    None => format!("v:{}", vals.iter().map(|e| e.print()).collect::<Vec<_>>().join("\u{1}")),
                };
                let n = vals.len();
                let regs = self.regs();
                let slot = regs.cycles.entry(key).or_insert(0);
                let i = *slot;
                if i >= n {
                    return unspec("cycle group shared by tags with different value counts");
                }
                *slot = (i + 1) % n;
                let v = self.eval(&vals[i])?;
                let s = render_value(&v)?;
                self.out.push_str(&s);
            }
            Stmt::IfChanged(b) => {
                let s = self.capture_block(b)?;
                let regs = self.regs();
                let changed = regs.ifchanged.as_deref() != Some(s.as_str());
                regs.ifchanged = Some(s.clone());
                if changed {
                    self.out.push_str(&s);
                }
            }
            Stmt::If { unless, cond, body, elsifs, else_ } => {
                let c = self.cond(cond)?;
                if c != *unless {
                    self.block(body)?;
                } else {
                    let mut done = false;
                    for (c2, b2) in elsifs {
                        if self.cond(c2)? {
                            self.block(b2)?;
                            done = true;
                            break;
                        }
                    }
                    if !done {
                        if let Some(e) = else_ {
                            self.block(e)?;
                        }
                    }
                }
            }
            Stmt::Case { target, whens, else_ } => {
                let t = self.eval(target)?;
                let mut done = false;
                'outer: for (vals, _, body) in whens {
                    for v in vals {
                        let x = self.eval(v)?;
                        if ref_eq(&x, &t)? {
                            self.block(body)?;
                            done = true;
                            break 'outer;
                        }
                    }
                }
                if !done {
                    if let Some(e) = else_ {
                        self.block(e)?;
                    }
                }
            }
            Stmt::For { var, src, limit, offset, reversed, body, else_ } => {
                let w = self.window(src, limit, offset, *reversed)?;
                if w.is_empty() {
                    if let Some(e) = else_ {
                        self.block(e)?;
                    }
                } else {
                    let parent = self.lookup_root("forloop");
                    let n = w.len();
                    for (i, item) in w.into_iter().enumerate() {
                        let fl = Self::forloop_obj(i, n, parent.clone());
                        self.layers.push(Layer::Plain(vec![("forloop".into(), fl), (var.clone(), item)]));
                        let r = self.block(body);
                        self.layers.pop();
                        r?;
                        let int = self.regs().interrupt.take();
                        if int == Some(Interrupt::Break) {
                            break;
                        }
                    }
                }
            }
            Stmt::TableRow { var, src, cols, limit, offset, body } => {
                let w = self.window(src, limit, offset, false)?;
                let n = w.len();
                let cols = match cols {
                    Some(e) => {
                        let c = self.int_arg(e)?;
                        if c < 1 {
                            return err("tablerow cols must be at least 1");
                        }
                        c as usize
                    }
                    None => n.max(1),
                };
                for (i, item) in w.into_iter().enumerate() {
                    let col = i % cols;
                    let row = i / cols;
                    let (ii, nn) = (i as i64, n as i64);
                    let last = ii == nn - 1;
                    let tr = V::Obj(vec![
                        ("length".into(), V::Int(nn)),
                        ("index0".into(), V::Int(ii)),
                        ("index".into(), V::Int(ii + 1)),
                        ("rindex0".into(), V::Int(nn - ii - 1)),
                        ("rindex".into(), V::Int(nn - ii)),
                        ("first".into(), V::Bool(i == 0)),
                        ("last".into(), V::Bool(last)),
                        ("col0".into(), V::Int(col as i64)),
                        ("col".into(), V::Int(col as i64 + 1)),
                        ("col_first".into(), V::Bool(col == 0)),
                        ("col_last".into(), V::Bool(col == cols - 1 || last)),
                    ]);
                    if col == 0 {
                        self.out.push_str(&format!("<tr class=\"row{}\">", row + 1));
                    }
                    self.out.push_str(&format!("<td class=\"col{}\">", col + 1));
                    self.layers.push(Layer::Plain(vec![("tablerow".into(), tr), (var.clone(), item)]));
                    let r = self.block(body);
                    self.layers.pop();
                    r?;
                    if self.regs().interrupt.is_some() {
                        return unspec("break/continue directly inside tablerow");
                    }
                    self.out.push_str("</td>");
                    if col == cols - 1 || last {
                        self.out.push_str("</tr>");
                    }
                }
            }
            Stmt::Break => self.regs().interrupt = Some(Interrupt::Break),
            Stmt::Continue => self.regs().interrupt = Some(Interrupt::Continue),
            Stmt::Include { name, args } => {
                let n = self.eval(name)?;
                if !n.is_scalar() {
                    return err("can only include strings");
                }
                let pname = render_value(&n)?;
                let mut frame = Vec::new();
                for (k, e) in args {
                    let v = self.eval(e)?;
                    set(&mut frame, k, v);
                }
                let body = match self.partials.get(&pname) {
                    None => return err("partial does not exist"),
                    Some(Partial::Broken) => return err("partial does not parse"),
                    Some(Partial::Ok(b)) => b,
                };
                self.layers.push(Layer::Plain(frame));
                let r = self.block(body);
                self.layers.pop();
                r?;
            }
            Stmt::Render { name, form, args } => {
                let n = self.eval(name)?;
                if !n.is_scalar() {
                    return err("can only render strings");
                }
                let pname = render_value(&n)?;
                let lookup = |p: &BTreeMap<String, Partial>| -> Option<Partial> {
                    p.get(&pname).or_else(|| p.get(&format!("{pname}.liquid"))).cloned()
                };
                match form {
                    RenderForm::For(src, var) => {
                        let elems = self.elements(src)?;
                        if elems.is_empty() {
                            if !matches!(lookup(self.partials), Some(Partial::Ok(_))) {
                                return unspec("render-for over an empty collection naming a missing/broken partial");
                            }
                            return Ok(());
                        }
                        let len = elems.len();
                        for (i, item) in elems.into_iter().enumerate() {
                            let mut frame = Vec::new();
                            for (k, e) in args {
                                let v = self.eval(e)?;
                                set(&mut frame, k, v);
                            }
                            set(&mut frame, "forloop", Self::forloop_obj(i, len, None));
                            set(&mut frame, var, item);
                            let body = match lookup(self.partials) {
                                None => return err("partial does not exist"),
                                Some(Partial::Broken) => return err("partial does not parse"),
                                Some(Partial::Ok(b)) => b,
                            };
                            self.layers.push(Layer::Sandbox(frame, Box::default()));
                            self.layers.push(Layer::Global(Vec::new()));
                            let r = self.block(&body);
                            self.layers.pop();
                            let sb = self.layers.pop();
                            r?;
                            if let Some(Layer::Sandbox(_, regs)) = sb {
                                if regs.interrupt.is_some() {
                                    return unspec("break/continue at the top level of a render-for partial");
                                }
                            }
                        }
                    }
                    RenderForm::Plain | RenderForm::With(..) => {
                        let mut frame = Vec::new();
                        if let RenderForm::With(e, k) = form {
                            let v = self.eval(e)?;
                            set(&mut frame, k, v);
                        }
                        for (k, e) in args {
                            let v = self.eval(e)?;
                            set(&mut frame, k, v);
                        }
                        let body = match lookup(self.partials) {
                            None => return err("partial does not exist"),
                            Some(Partial::Broken) => return err("partial does not parse"),
                            Some(Partial::Ok(b)) => b,
                        };
                        self.layers.push(Layer::Sandbox(frame, Box::default()));
                        self.layers.push(Layer::Global(Vec::new()));
                        let r = self.block(&body);
                        self.layers.pop();
                        self.layers.pop();
                        r?;
                    }
                }
            }
        }
        Ok(())
    }

    fn set_counter(&mut self, n: &str, v: i64) {
        if let Some(e) = self.counters.iter_mut().find(|(k, _)| k == n) {
            e.1 = v;
        } else {
            self.counters.push((n.to_string(), v));
        }
    }
}

/// Convenience: run a program without partials.
pub fn run(prog: &[Stmt], data: &V) -> R<String> {
    let p = BTreeMap::new();
    Interp::new(&p, data).run(prog)
}

pub fn run_with(prog: &[Stmt], data: &V, partials: &BTreeMap<String, Partial>) -> R<String> {
    Interp::new(partials, data).run(prog)
}
