//! Panic capture, parallel exhaustive ranges, hang watchdog.

use crate::report::{norm_msg, Report};
use std::cell::RefCell;
use std::panic::{catch_unwind, AssertUnwindSafe};
use std::sync::atomic::{AtomicBool, AtomicU64, Ordering};
use std::sync::Mutex;
use std::time::{Duration, Instant};

#[derive(Debug, Clone)]
pub struct PanicInfo {
    pub file: String,
    pub line: u32,
    pub msg: String,
}

impl PanicInfo {
    /// Signature fragment: source file + normalised message (no line number:
    /// it moves with unrelated edits).
    pub fn sig(&self) -> String {
        format!("panic|{}|{}", short_file(&self.file), norm_msg(&self.msg))
    }
    pub fn describe(&self) -> String {
        format!("panicked at {}:{}: {}", self.file, self.line, self.msg)
    }
}

fn short_file(f: &str) -> String {
    // keep path relative to the repository / the std library
    if let Some(i) = f.find("/repo/") {
        return f[i + 6..].to_string();
    }
    if let Some(i) = f.find("/library/") {
        return f[i + 1..].to_string();
    }
    if let Some(i) = f.find("/registry/src/") {
        let rest = &f[i + 14..];
        if let Some(j) = rest.find('/') {
            return rest[j + 1..].to_string();
        }
    }
    f.to_string()
}

thread_local! {
    static LAST_PANIC: RefCell<Option<PanicInfo>> = const { RefCell::new(None) };
    static GUARD_DEPTH: std::cell::Cell<u32> = const { std::cell::Cell::new(0) };
}

pub fn install_panic_hook() {
    std::panic::set_hook(Box::new(|info| {
        let (file, line) = info
            .location()
            .map(|l| (l.file().to_string(), l.line()))
            .unwrap_or_else(|| ("<unknown>".into(), 0));
        let msg = if let Some(s) = info.payload().downcast_ref::<&str>() {
            s.to_string()
        } else if let Some(s) = info.payload().downcast_ref::<String>() {
            s.clone()
        } else {
            "<non-string panic payload>".to_string()
        };
        if GUARD_DEPTH.with(|d| d.get()) == 0 {
            // not inside a guarded call of the subject: this is the harness's own failure
            eprintln!("machinery failure: harness panicked at {file}:{line}: {msg}");
        }
        LAST_PANIC.with(|p| {
            let mut p = p.borrow_mut();
            // keep the first panic of a guarded region (a double panic would abort anyway)
            if p.is_none() {
                *p = Some(PanicInfo { file, line, msg });
            }
        });
    }));
}

/// Runs `f`, converting a panic into `Err(PanicInfo)`.
pub fn guard<T>(f: impl FnOnce() -> T) -> Result<T, PanicInfo> {
    LAST_PANIC.with(|p| *p.borrow_mut() = None);
    GUARD_DEPTH.with(|d| d.set(d.get() + 1));
    let r = catch_unwind(AssertUnwindSafe(f));
    GUARD_DEPTH.with(|d| d.set(d.get().saturating_sub(1)));
    match r {
        Ok(t) => Ok(t),
        Err(_) => {
            let info = LAST_PANIC.with(|p| p.borrow_mut().take());
            Err(info.unwrap_or(PanicInfo {
                file: "<unknown>".into(),
                line: 0,
                msg: "<panic without hook record>".into(),
            }))
        }
    }
}

pub fn threads() -> usize {
    std::env::var("VERIF_THREADS")
        .ok()
        .and_then(|s| s.parse().ok())
        .unwrap_or_else(|| {
            std::thread::available_parallelism()
                .map(|n| n.get())
                .unwrap_or(4)
        })
}

const HANG_SECS: u64 = 60;

/// chunk journal of the running process (`LQV_CRASHFILE`), read by the parent if this process dies
static CRASHLOG: std::sync::OnceLock<Option<Mutex<std::fs::File>>> = std::sync::OnceLock::new();

/// Exhaustive parallel loop over case indices `0..n`.  A watchdog reports a
/// case that does not complete within `HANG_SECS` as a `hang` violation of the
/// running property (with `describe(idx)` as witness) and ends the run.
pub fn par_range<F, D>(report: &Report, family: &str, n: u64, f: F, describe: D)
where
    F: Fn(u64) + Sync,
    D: Fn(u64) -> serde_json::Value + Sync,
{
    // ---- abort attribution (see lqv/src/main.rs): probe / describe modes of a child process
    if let Ok(spec) = std::env::var("LQV_DESCRIBE") {
        if let Some((fam, idx)) = spec.split_once('\t') {
            if fam == family {
                let idx: u64 = idx.parse().unwrap_or(0);
                println!("{}", describe(idx.min(n.saturating_sub(1))));
                std::process::exit(0);
            }
        }
        return;
    }
    if let Ok(spec) = std::env::var("LQV_PROBE") {
        let parts: Vec<&str> = spec.split('\t').collect();
        if parts.len() == 3 && parts[0] == family {
            let (a, b): (u64, u64) = (parts[1].parse().unwrap_or(0), parts[2].parse().unwrap_or(0));
            let path = std::env::var("LQV_CRASHFILE").unwrap_or_default();
            for i in a..b.min(n) {
                // the index is on disk before the case runs: if the process dies, the file names the culprit
                let _ = std::fs::write(&path, format!("{i}\n"));
                f(i);
            }
            let _ = std::fs::write(&path, "done\n");
            std::process::exit(0);
        }
        return;
    }
    let crashlog = CRASHLOG.get_or_init(|| std::env::var("LQV_CRASHFILE").ok().and_then(|p| std::fs::OpenOptions::new().create(true).append(true).open(p).ok()).map(Mutex::new));
    let nthreads = threads().max(1);
    let next = AtomicU64::new(0);
    let chunk: u64 = if n > 4_000_000 {
        4096
    } else if n > 100_000 {
        512
    } else if n > 2_000 {
        32
    } else {
        1
    };
    let done = AtomicBool::new(false);
    // per-thread (current index, start ms since t0); u64::MAX = idle
    let slots: Vec<(AtomicU64, AtomicU64)> = (0..nthreads)
        .map(|_| (AtomicU64::new(u64::MAX), AtomicU64::new(0)))
        .collect();
    let t0 = Instant::now();
    let hang: Mutex<Option<u64>> = Mutex::new(None);
    std::thread::scope(|s| {
        for t in 0..nthreads {
            let next = &next;
            let f = &f;
            let slots = &slots;
            s.spawn(move || loop {
                let start = next.fetch_add(chunk, Ordering::Relaxed);
                if start >= n {
                    slots[t].0.store(u64::MAX, Ordering::Relaxed);
                    break;
                }
                let end = (start + chunk).min(n);
                if let Some(log) = crashlog {
                    use std::io::Write;
                    if let Ok(mut fh) = log.lock() {
                        let _ = writeln!(fh, "{family}\t{start}\t{end}");
                    }
                }
                for i in start..end {
                    slots[t]
                        .1
                        .store(t0.elapsed().as_millis() as u64, Ordering::Relaxed);
                    slots[t].0.store(i, Ordering::Relaxed);
                    f(i);
                }
                slots[t].0.store(u64::MAX, Ordering::Relaxed);
            });
        }
        // the scope joins workers; the watchdog ends when all are idle
        // (or reports a hang, after which we must not wait for the stuck worker)
        let mut sleep_ms = 1u64;
        loop {
            std::thread::sleep(Duration::from_millis(sleep_ms));
            sleep_ms = (sleep_ms * 2).min(100);
            let now = t0.elapsed().as_millis() as u64;
            for sl in slots.iter() {
                let idx = sl.0.load(Ordering::Relaxed);
                if idx != u64::MAX {
                    let st = sl.1.load(Ordering::Relaxed);
                    if now.saturating_sub(st) > HANG_SECS * 1000
                        && sl.0.load(Ordering::Relaxed) == idx
                    {
                        *hang.lock().unwrap() = Some(idx);
                    }
                }
            }
            if let Some(idx) = *hang.lock().unwrap() {
                let w = describe(idx);
                report.violation(
                    &format!("hang|{family}"),
                    idx,
                    w,
                    format!("case {idx} of family {family} did not complete within {HANG_SECS}s"),
                );
                let code = report.finish();
                std::process::exit(if code == 0 { 1 } else { code });
            }
            let all_idle = slots
                .iter()
                .all(|sl| sl.0.load(Ordering::Relaxed) == u64::MAX);
            if all_idle && next.load(Ordering::Relaxed) >= n {
                done.store(true, Ordering::Relaxed);
                break;
            }
        }
    });
}

/// Mixed-radix decoding: digits of `idx` in the given radices (least
/// significant first).
pub fn decode(mut idx: u64, radices: &[u64]) -> Vec<u64> {
    let mut out = Vec::with_capacity(radices.len());
    for r in radices {
        out.push(idx % r);
        idx /= r;
    }
    out
}

pub fn product(radices: &[u64]) -> u64 {
    radices.iter().product()
}

/// Number of sequences of length 0..=k over an alphabet of size a.
pub fn seq_count(a: u64, k: u32) -> u64 {
    (0..=k).map(|l| a.pow(l)).sum()
}

/// Decodes index into a sequence (shorter sequences first).
pub fn seq_decode(mut idx: u64, a: u64, k: u32) -> Vec<u64> {
    for l in 0..=k {
        let c = a.pow(l);
        if idx < c {
            let mut out = Vec::with_capacity(l as usize);
            for _ in 0..l {
                out.push(idx % a);
                idx /= a;
            }
            return out;
        }
        idx -= c;
    }
    panic!("seq_decode: index out of range");
}
