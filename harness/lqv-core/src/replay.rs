//! `lqv replay <file>`: re-runs the single case recorded in a replay file.

use crate::cfgs::{self, Config, Policy};
use crate::val::V;
use serde_json::Value as J;

fn config_of(w: &J) -> Config {
    match w["config"].as_str() {
        Some("empty") => Config::Empty,
        Some("stdlib") => Config::Stdlib,
        _ => Config::Full,
    }
}

fn partials_of(w: &J) -> Vec<(String, String)> {
    w["partials"]
        .as_array()
        .map(|a| a.iter().filter_map(|p| Some((p[0].as_str()?.to_string(), p[1].as_str()?.to_string()))).collect())
        .unwrap_or_default()
}

pub fn replay(path: &str) -> i32 {
    crate::run::install_panic_hook();
    let Ok(text) = std::fs::read_to_string(path) else {
        eprintln!("cannot read {path}");
        return 2;
    };
    let Ok(j) = serde_json::from_str::<J>(&text) else {
        eprintln!("{path} is not JSON");
        return 2;
    };
    println!("property : {}", j["property"].as_str().unwrap_or("?"));
    println!("signature: {}", j["signature"].as_str().unwrap_or("?"));
    println!("recorded : {}", j["detail"].as_str().unwrap_or("?"));
    let w = &j["witness"];
    match w["kind"].as_str().unwrap_or("") {
        "parse" => {
            let t = w["text"].as_str().unwrap_or("");
            let p = cfgs::parser(config_of(w));
            match cfgs::parse_guarded(&p, t) {
                Err(pi) => println!("now      : PANIC {}", pi.describe()),
                Ok(Err(e)) => println!("now      : Err({})", cfgs::first_line(&e)),
                Ok(Ok(_)) => println!("now      : Ok(template)"),
            }
            println!("unit test: liquid::ParserBuilder::with_stdlib().build().unwrap().parse({t:?})");
        }
        "render" | "policies" => {
            let t = w["template"].as_str().unwrap_or("");
            let data = V::from_json(&w["data"]);
            let partials = partials_of(w);
            let policies: Vec<Policy> = if w["kind"] == "policies" { vec![Policy::Eager, Policy::Lazy, Policy::OnDemand] } else if partials.is_empty() { vec![Policy::None] } else { vec![Policy::Eager] };
            for pol in policies {
                let p = cfgs::build(Config::Full, pol, &partials).expect("parser");
                let globals = if matches!(data, V::Obj(_)) { data.to_object() } else { liquid::Object::new() };
                let (o, _) = cfgs::run_case(&p, t, &globals);
                println!("now ({pol:?}): {}", o.short());
            }
            println!("expected : {}", w.get("expected").map(|e| e.to_string()).unwrap_or_else(|| "(see recorded detail)".into()));
            println!("unit test: parse {t:?} with ParserBuilder::with_stdlib() (partials {partials:?}) and render on {}", w["data"]);
        }
        "reexec" => {
            // one parsed template rendered for every entry of `history` in turn
            let t = w["template"].as_str().unwrap_or("");
            let partials = partials_of(w);
            let p = cfgs::build(Config::Full, if partials.is_empty() { Policy::None } else { Policy::Eager }, &partials).expect("parser");
            match cfgs::parse_guarded(&p, t) {
                Ok(Ok(tmpl)) => {
                    for (i, d) in w["history"].as_array().cloned().unwrap_or_default().iter().enumerate() {
                        let data = V::from_json(d);
                        let globals = if matches!(data, V::Obj(_)) { data.to_object() } else { liquid::Object::new() };
                        let r = cfgs::render_guarded(&tmpl, &globals);
                        println!("now  #{}  : {:?}   (data {})", i + 1, r.map_err(|pi| pi.describe()), d);
                        let fresh = cfgs::run_case(&cfgs::build(Config::Full, if partials.is_empty() { Policy::None } else { Policy::Eager }, &partials).expect("parser"), t, &globals).0;
                        println!("fresh #{} : {}", i + 1, fresh.short());
                    }
                }
                other => println!("now      : template does not parse: {:?}", other.map(|r| r.map(|_| ())).map_err(|pi| pi.describe())),
            }
            println!("unit test: parse {t:?} once, render it with each entry of `history` in turn, compare the last result with a freshly parsed copy");
        }
        "history" => {
            // histories of render calls on one shared parser: [[template index, data index], ...]
            let texts: Vec<String> = w["templates"].as_array().map(|a| a.iter().filter_map(|x| x.as_str().map(|s| s.to_string())).collect()).unwrap_or_default();
            let datas: Vec<V> = w["data"].as_array().map(|a| a.iter().map(V::from_json).collect()).unwrap_or_default();
            let partials = partials_of(w);
            let pol = match w["policy"].as_str() {
                Some("Lazy") => Policy::Lazy,
                Some("OnDemand") => Policy::OnDemand,
                _ => Policy::Eager,
            };
            let p = cfgs::build(Config::Full, pol, &partials).expect("parser");
            let tmpls: Vec<_> = texts.iter().map(|t| cfgs::parse_guarded(&p, t)).collect();
            for (i, step) in w["history"].as_array().cloned().unwrap_or_default().iter().enumerate() {
                let (ti, di) = (step[0].as_u64().unwrap_or(0) as usize, step[1].as_u64().unwrap_or(0) as usize);
                let (Some(Ok(Ok(t))), Some(d)) = (tmpls.get(ti), datas.get(di)) else {
                    println!("step #{}: template {ti} / data {di} not available in the witness", i + 1);
                    continue;
                };
                let globals = if matches!(d, V::Obj(_)) { d.to_object() } else { liquid::Object::new() };
                println!("now  #{}  : template {ti} on data {di}: {:?}", i + 1, cfgs::render_guarded(t, &globals).map_err(|pi| pi.describe()));
                let fp = cfgs::build(Config::Full, pol, &partials).expect("parser");
                println!("fresh #{} : {}", i + 1, cfgs::run_case(&fp, &texts[ti], &globals).0.short());
            }
            println!("expected : every call equals the same call on a freshly built parser ({})", w.get("expected").map(|e| e.to_string()).unwrap_or_default());
        }
        "date-format" => {
            let ts = w["timestamp"].as_str().unwrap_or("");
            let f = w["format"].as_str().unwrap_or("");
            match liquid_core::model::DateTime::from_str(ts) {
                Some(dt) => println!("now      : {:?}", crate::run::guard(|| dt.format(f).map_err(|e| e.to_string()))),
                None => println!("now      : timestamp {ts:?} does not parse"),
            }
            println!("unit test: liquid_core::model::DateTime::from_str({ts:?}).unwrap().format({f:?})");
        }
        other => {
            println!("witness  : {}", serde_json::to_string_pretty(w).unwrap_or_default());
            println!("replay   : witnesses of kind {other:?} are re-run by their check: cases are index-addressable and enumeration is deterministic, so `./check {} quick` (or thorough) reproduces this violation with the same witness", j["property"].as_str().unwrap_or("<ID>"));
        }
    }
    0
}
