//! C14 — array filters neither invent nor lose elements beyond their contract.

use crate::cfgs::{self, dump_v, Config, Outcome};
use crate::report::{FamilyStat, Report, Tier};
use crate::run::{decode, par_range, product, seq_count, seq_decode};
use crate::val::V;
use serde_json::json;
use std::sync::atomic::{AtomicU64, Ordering};

/// splits the top-level elements of a dumped array `[a,b,[c,d],{k=v}]`
pub fn split_dump(s: &str) -> Option<Vec<String>> {
    let inner = s.strip_prefix('[')?.strip_suffix(']')?;
    let mut out = Vec::new();
    let mut depth = 0i32;
    let mut in_str = false;
    let mut esc = false;
    let mut cur = String::new();
    for c in inner.chars() {
        if in_str {
            cur.push(c);
            if esc {
                esc = false;
            } else if c == '\\' {
                esc = true;
            } else if c == '"' {
                in_str = false;
            }
            continue;
        }
        match c {
            '"' => {
                in_str = true;
                cur.push(c);
            }
            '[' | '{' => {
                depth += 1;
                cur.push(c);
            }
            ']' | '}' => {
                depth -= 1;
                cur.push(c);
            }
            ',' if depth == 0 => out.push(std::mem::take(&mut cur)),
            _ => cur.push(c),
        }
    }
    if !cur.is_empty() || !inner.is_empty() {
        out.push(cur);
    }
    Some(out)
}

fn darr(v: &[V]) -> String {
    dump_v(&V::Arr(v.to_vec()))
}

struct Ctx<'a> {
    report: &'a Report,
    parser: liquid::Parser,
    nontriv: AtomicU64,
}

impl Ctx<'_> {
    fn render(&self, chain: &str, data: &V) -> Outcome {
        self.report.eval();
        cfgs::run_case(&self.parser, &format!("{{{{ a | {chain} | dump }}}}"), &data.to_object()).0
    }
    fn fail(&self, filter: &str, clause: &str, idx: u64, chain: &str, data: &V, expected: &str, actual: &Outcome) {
        let class = if let Outcome::Panic(m) = actual { format!("panic|{}", crate::report::norm_msg(m)) } else { clause.to_string() };
        self.report.violation(
            &format!("C14|{filter}|{class}"),
            idx,
            json!({"kind":"render","template":format!("{{{{ a | {chain} | dump }}}}"),"data":data.to_json(),"partials":[],"expected":expected,"actual":actual.to_json()}),
            format!("{{{{ a | {chain} }}}} on {}: expected {expected}, got {}", data.to_json(), actual.short()),
        );
    }
    fn exact(&self, filter: &str, clause: &str, idx: u64, chain: &str, data: &V, expected: &str) {
        let actual = self.render(chain, data);
        self.nontriv.fetch_add(1, Ordering::Relaxed);
        if idx % 101 == 0 {
            self.report.outcome(&actual.short());
        }
        if actual != Outcome::Ok(expected.to_string()) {
            self.fail(filter, clause, idx, chain, data, expected, &actual);
        }
    }
    /// two chains must give the same result (a panic in either is reported as such)
    fn agree(&self, filter: &str, clause: &str, idx: u64, chain_a: &str, chain_b: &str, data: &V) {
        let a = self.render(chain_a, data);
        let b = self.render(chain_b, data);
        self.nontriv.fetch_add(1, Ordering::Relaxed);
        if matches!(a, Outcome::Panic(_)) {
            self.fail(filter, clause, idx, chain_a, data, "a result", &a);
        } else if a != b {
            self.fail(filter, clause, idx, chain_b, data, &format!("what {{{{ a | {chain_a} }}}} gives: {}", a.short()), &b);
        }
    }
    /// either of two readings is accepted
    fn either(&self, filter: &str, clause: &str, idx: u64, chain: &str, data: &V, a: &str, b: &str) {
        let actual = self.render(chain, data);
        self.nontriv.fetch_add(1, Ordering::Relaxed);
        if actual != Outcome::Ok(a.to_string()) && actual != Outcome::Ok(b.to_string()) {
            self.fail(filter, clause, idx, chain, data, &format!("{a} (or {b})"), &actual);
        }
    }
    /// the result must be a permutation of `input`
    fn permutation(&self, filter: &str, idx: u64, chain: &str, data: &V, input: &[V]) -> Option<Vec<String>> {
        let actual = self.render(chain, data);
        self.nontriv.fetch_add(1, Ordering::Relaxed);
        let mut want: Vec<String> = input.iter().map(dump_v).collect();
        want.sort();
        match &actual {
            Outcome::Ok(s) => match split_dump(s) {
                Some(got) => {
                    let mut g = got.clone();
                    g.sort();
                    if g != want {
                        self.fail(filter, "not-a-permutation", idx, chain, data, &format!("a permutation of {}", darr(input)), &actual);
                        None
                    } else {
                        Some(got)
                    }
                }
                None => {
                    self.fail(filter, "not-an-array", idx, chain, data, "array", &actual);
                    None
                }
            },
            other => {
                self.fail(filter, "failed", idx, chain, data, &format!("a permutation of {}", darr(input)), other);
                None
            }
        }
    }
}

fn sort_scalars_ref(a: &[V]) -> Vec<V> {
    // stable: non-nil ascending (ints numerically, strings by byte order), nil last
    let mut non: Vec<V> = a.iter().filter(|v| **v != V::Nil).cloned().collect();
    non.sort_by(|x, y| match (x, y) {
        (V::Int(p), V::Int(q)) => p.cmp(q),
        (V::Str(p), V::Str(q)) => p.as_str().cmp(q.as_str()),
        _ => std::cmp::Ordering::Equal,
    });
    let nils = a.iter().filter(|v| **v == V::Nil).count();
    non.extend(std::iter::repeat(V::Nil).take(nils));
    non
}

fn sort_natural_ref(a: &[V]) -> Vec<V> {
    let mut non: Vec<V> = a.iter().filter(|v| **v != V::Nil).cloned().collect();
    non.sort_by_key(|x| match x {
        V::Str(s) => s.to_lowercase(),
        V::Int(i) => i.to_string(),
        _ => String::new(),
    });
    let nils = a.iter().filter(|v| **v == V::Nil).count();
    non.extend(std::iter::repeat(V::Nil).take(nils));
    non
}

fn uniq_ref(a: &[V]) -> Vec<V> {
    let mut out: Vec<V> = Vec::new();
    for x in a {
        // equality = the independent reference's where it has an opinion (scalars of one kind, arrays, objects: same
        // keys and equal members), otherwise the value model's (e.g. `false == nil` holds there)
        let same = |y: &V| match crate::refl::ref_eq(y, x) {
            Ok(b) => b,
            Err(_) => liquid_core::model::ValueViewCmp::new(&y.to_liquid()) == liquid_core::model::ValueViewCmp::new(&x.to_liquid()),
        };
        if !out.iter().any(same) {
            out.push(x.clone());
        }
    }
    out
}

fn slice_ref(a: &[V], off: i64, len: i64) -> Vec<V> {
    let n = a.len() as i64;
    let mut o = off;
    if o < 0 {
        o += n;
    }
    if o < 0 || o > n || len <= 0 {
        return vec![];
    }
    a[o as usize..((o + len).min(n)) as usize].to_vec()
}

fn scalar_arrays(ctx: &Ctx, pool: &[V], pname: &str, maxlen: u32) {
    let n = pool.len() as u64;
    let total = seq_count(n, maxlen);
    let name = format!("arrays over {pname}/len<={maxlen}");
    let ints = pool.iter().all(|v| matches!(v, V::Int(_) | V::Nil));
    par_range(
        ctx.report,
        &name,
        total,
        |i| {
            let a: Vec<V> = seq_decode(i, n, maxlen).iter().map(|k| pool[*k as usize].clone()).collect();
            let data = V::obj(&[("a", V::Arr(a.clone())), ("b", V::Arr(vec![V::Int(9), V::Nil]))]);
            // sort: exact for mutually comparable elements, and idempotent
            let sorted = sort_scalars_ref(&a);
            ctx.exact("sort", "order", i, "sort", &data, &darr(&sorted));
            ctx.exact("sort", "idempotent", i, "sort | sort", &data, &darr(&sorted));
            ctx.permutation("sort_natural", i, "sort_natural", &data, &a);
            if !ints {
                ctx.exact("sort_natural", "order", i, "sort_natural", &data, &darr(&sort_natural_ref(&a)));
            }
            let mut rev = a.clone();
            rev.reverse();
            ctx.exact("reverse", "value", i, "reverse", &data, &darr(&rev));
            ctx.exact("reverse", "involution", i, "reverse | reverse", &data, &darr(&a));
            ctx.exact("uniq", "first-of-each-class", i, "uniq", &data, &darr(&uniq_ref(&a)));
            ctx.exact("compact", "removes-exactly-nils", i, "compact", &data, &darr(&a.iter().filter(|v| **v != V::Nil).cloned().collect::<Vec<_>>()));
            let mut cat = a.clone();
            cat.extend([V::Int(9), V::Nil]);
            ctx.exact("concat", "value", i, "concat: b", &data, &darr(&cat));
            ctx.exact("concat", "length-is-sum", i, "concat: b | size", &data, &format!("i:{}", a.len() + 2));
            ctx.exact("first", "agrees-with-indexing", i, "first", &data, &dump_v(a.first().unwrap_or(&V::Nil)));
            ctx.exact("last", "agrees-with-indexing", i, "last", &data, &dump_v(a.last().unwrap_or(&V::Nil)));
            ctx.exact("size", "agrees-with-indexing", i, "size", &data, &format!("i:{}", a.len()));
            let joined: Vec<String> = a.iter().map(|v| crate::refl::render_value(v).unwrap()).collect();
            ctx.exact("join", "value", i, "join: '-'", &data, &dump_v(&V::Str(joined.join("-"))));
            ctx.exact("join", "default-separator", i, "join", &data, &dump_v(&V::Str(joined.join(" "))));
        },
        |i| json!({"a": seq_decode(i, n, maxlen)}),
    );
    ctx.report.family(FamilyStat { name, cases: total, nontrivial: total * 16, skipped: 0, note: "sort(+idempotent) sort_natural reverse(+involution) uniq compact concat(+size) first last size join".into() });
    // slice on arrays: every offset/length
    let rad = [seq_count(n, maxlen.min(4)), 13, 8];
    let total = product(&rad);
    let name = format!("array slice over {pname}");
    par_range(
        ctx.report,
        &name,
        total,
        |i| {
            let d = decode(i, &rad);
            let a: Vec<V> = seq_decode(d[0], n, maxlen.min(4)).iter().map(|k| pool[*k as usize].clone()).collect();
            let (off, len) = (d[1] as i64 - 6, d[2] as i64);
            let data = V::obj(&[("a", V::Arr(a.clone())), ("o", V::Int(off)), ("l", V::Int(len))]);
            if len == 0 {
                ctx.exact("slice", "agrees-with-indexing", i, "slice: o", &data, &darr(&slice_ref(&a, off, 1)));
            } else {
                ctx.exact("slice", "agrees-with-indexing", i, "slice: o, l", &data, &darr(&slice_ref(&a, off, len)));
            }
        },
        |i| json!({"index": i}),
    );
    ctx.report.family(FamilyStat { name, cases: total, nontrivial: total, skipped: 0, note: "offset in [-6,6], length absent or 1..7".into() });
}


/// Arrays whose elements are of *different kinds yet equal* in the value model (1 and 1.0; true and
/// any truthy scalar; false and nil): uniq must drop by the model's equality, not by a finer key
/// (type + text) or a coarser one; compact removes exactly nils; reverse/concat/size keep every
/// element.  Expected arrays are passed as data and dumped by the engine itself, so no printed
/// form is modelled.
fn mixed_equal_arrays(ctx: &Ctx, maxlen: u32) {
    let pool = [V::Int(1), V::Float(1.0), V::Int(2), V::Float(2.0), V::Float(2.5), V::s("1"), V::Bool(true), V::Bool(false), V::Nil];
    let n = pool.len() as u64;
    let total = seq_count(n, maxlen);
    let name = format!("arrays over {{1,1.0,2,2.0,2.5,\"1\",true,false,nil}}/len<={maxlen}");
    let tmpl = "{{ a | uniq | dump }}#{{ eu | dump }}#{{ a | compact | dump }}#{{ ec | dump }}#{{ a | reverse | dump }}#{{ er | dump }}#{{ a | concat: a | size }}#{{ a | sort | size }}#{{ a | uniq | uniq | dump }}";
    par_range(
        ctx.report,
        &name,
        total,
        |i| {
            let a: Vec<V> = seq_decode(i, n, maxlen).iter().map(|k| pool[*k as usize].clone()).collect();
            let mut er = a.clone();
            er.reverse();
            let data = V::obj(&[
                ("a", V::Arr(a.clone())),
                ("eu", V::Arr(uniq_ref(&a))),
                ("ec", V::Arr(a.iter().filter(|v| **v != V::Nil).cloned().collect())),
                ("er", V::Arr(er)),
            ]);
            ctx.report.eval();
            let (actual, _) = cfgs::run_case(&ctx.parser, tmpl, &data.to_object());
            let w = || json!({"kind":"render","template":tmpl,"data":data.to_json(),"partials":[]});
            let Outcome::Ok(out) = &actual else {
                ctx.report.violation(&format!("C14|mixed|{}", if matches!(actual, Outcome::Panic(_)) { "panic" } else { "failed" }), i, w(), format!("{} on {}: {}", tmpl, data.to_json(), actual.short()));
                return;
            };
            let p: Vec<&str> = out.split('#').collect();
            if p.len() != 9 {
                ctx.report.violation("C14|mixed|malformed-output", i, w(), out.clone());
                return;
            }
            ctx.nontriv.fetch_add(6, Ordering::Relaxed);
            let arr = darr(&a);
            if p[0] != p[1] {
                ctx.report.violation("C14|uniq|drops-exactly-the-elements-equal-to-an-earlier-one|mixed-kinds", i, w(), format!("uniq of {arr}: expected {} got {}", p[1], p[0]));
            }
            if p[8] != p[0] {
                ctx.report.violation("C14|uniq|idempotent|mixed-kinds", i, w(), format!("uniq | uniq of {arr}: {} vs {}", p[8], p[0]));
            }
            if p[2] != p[3] {
                ctx.report.violation("C14|compact|removes-exactly-nils|mixed-kinds", i, w(), format!("compact of {arr}: expected {} got {}", p[3], p[2]));
            }
            if p[4] != p[5] {
                ctx.report.violation("C14|reverse|value|mixed-kinds", i, w(), format!("reverse of {arr}: expected {} got {}", p[5], p[4]));
            }
            if p[6] != (2 * a.len()).to_string() {
                ctx.report.violation("C14|concat|length-is-sum|mixed-kinds", i, w(), format!("concat size {} for |a| = {}", p[6], a.len()));
            }
            if p[7] != a.len().to_string() {
                ctx.report.violation("C14|sort|permutation|mixed-kinds", i, w(), format!("sort size {} for |a| = {}", p[7], a.len()));
            }
            if i % 101 == 0 {
                ctx.report.outcome(&p[0].to_string());
            }
        },
        |i| json!({"a": seq_decode(i, n, maxlen)}),
    );
    ctx.report.family(FamilyStat { name, cases: total, nontrivial: total * 6, skipped: 0, note: "uniq (model equality, idempotent), compact, reverse, concat size, sort size on arrays mixing kinds that compare equal".into() });
}

fn object_arrays(ctx: &Ctx, maxlen: u32) {
    let pool = [
        V::obj(&[("p", V::Int(1))]),
        V::obj(&[("p", V::Int(2))]),
        V::obj(&[("p", V::Nil)]),
        V::obj(&[("q", V::Int(1))]),
        V::obj(&[("p", V::Int(1)), ("q", V::Int(2))]),
        V::obj(&[("p", V::Bool(false))]),
        V::obj(&[("p", V::s("x"))]),
        // an object that really has a member called `size`
        V::obj(&[("size", V::Int(5)), ("p", V::Int(2))]),
    ];
    let n = pool.len() as u64;
    let total = seq_count(n, maxlen);
    let name = format!("arrays of objects/len<={maxlen}");
    let getp = |o: &V, k: &str| -> Option<V> {
        match o {
            V::Obj(m) => m.iter().find(|(n, _)| n == k).map(|(_, v)| v.clone()),
            _ => None,
        }
    };
    par_range(
        ctx.report,
        &name,
        total,
        |i| {
            let a: Vec<V> = seq_decode(i, n, maxlen).iter().map(|k| pool[*k as usize].clone()).collect();
            let data = V::obj(&[("a", V::Arr(a.clone())), ("one", V::Int(1)), ("nothing", V::Nil)]);
            // map: in order, the properties of the objects that have the property
            // `size`, `first`, `last` are ordinary property names here: only objects that have such a member count
            for k in ["p", "q", "zz", "size", "first", "last"] {
                let m: Vec<V> = a.iter().filter_map(|o| getp(o, k)).collect();
                ctx.exact("map", "value", i, &format!("map: '{k}'"), &data, &darr(&m));
            }
            // where (truthy) / where (equal to target)
            let truthy: Vec<V> = a.iter().filter(|o| matches!(getp(o, "p"), Some(v) if v != V::Nil && v != V::Bool(false))).cloned().collect();
            ctx.exact("where", "truthy-property", i, "where: 'p'", &data, &darr(&truthy));
            let eq1: Vec<V> = a.iter().filter(|o| getp(o, "p") == Some(V::Int(1))).cloned().collect();
            ctx.exact("where", "equal-to-target", i, "where: 'p', 1", &data, &darr(&eq1));
            ctx.exact("where", "equal-to-target", i, "where: 'p', one", &data, &darr(&eq1));
            let eqx: Vec<V> = a.iter().filter(|o| getp(o, "p") == Some(V::s("x"))).cloned().collect();
            ctx.exact("where", "equal-to-target", i, "where: 'p', 'x'", &data, &darr(&eqx));
            ctx.exact("where", "absent-property", i, "where: 'zz'", &data, "[]");
            // falsy targets: only objects that *have* the property (with an equal value) qualify; a missing
            // property is not "equal to nil".  Equality is the value model's (nil == false there).
            let has_falsy: Vec<V> = a.iter().filter(|o| matches!(getp(o, "p"), Some(v) if v == V::Nil || v == V::Bool(false))).cloned().collect();
            // a nil target may also be read as "no target given" (Ruby's signature defaults it to nil): truthy filter
            ctx.either("where", "equal-to-falsy-target", i, "where: 'p', nothing", &data, &darr(&has_falsy), &darr(&truthy));
            ctx.exact("where", "equal-to-falsy-target", i, "where: 'p', false", &data, &darr(&has_falsy));
            ctx.exact("where", "absent-property", i, "where: 'zz', nothing", &data, "[]");
            ctx.exact("where", "absent-property", i, "where: 'zz', 1", &data, "[]");
            // compact by property: drops objects whose property is nil or missing
            let comp: Vec<V> = a.iter().filter(|o| matches!(getp(o, "p"), Some(v) if v != V::Nil)).cloned().collect();
            ctx.exact("compact", "by-property", i, "compact: 'p'", &data, &darr(&comp));
            // sort by property: permutation always; exact (stable, nil/missing last) when keys are mutually comparable
            if let Some(got) = ctx.permutation("sort", i, "sort: 'p'", &data, &a) {
                let keys: Vec<Option<V>> = a.iter().map(|o| getp(o, "p").filter(|v| *v != V::Nil)).collect();
                let comparable = keys.iter().flatten().all(|k| matches!(k, V::Int(_))) || keys.iter().flatten().all(|k| matches!(k, V::Str(_)));
                if comparable {
                    let mut idx: Vec<usize> = (0..a.len()).collect();
                    idx.sort_by(|x, y| match (&keys[*x], &keys[*y]) {
                        (Some(V::Int(p)), Some(V::Int(q))) => p.cmp(q),
                        (Some(V::Str(p)), Some(V::Str(q))) => p.cmp(q),
                        (None, None) => std::cmp::Ordering::Equal,
                        (None, _) => std::cmp::Ordering::Greater,
                        (_, None) => std::cmp::Ordering::Less,
                        _ => std::cmp::Ordering::Equal,
                    });
                    let want: Vec<String> = idx.iter().map(|j| dump_v(&a[*j])).collect();
                    if got != want {
                        ctx.fail("sort", "by-property-not-stable-or-not-ordered", i, "sort: 'p'", &data, &format!("[{}]", want.join(",")), &Outcome::Ok(format!("[{}]", got.join(","))));
                    }
                }
            }
            ctx.permutation("sort_natural", i, "sort_natural: 'p'", &data, &a);
            // uniq on objects: first of each equality class
            ctx.exact("uniq", "first-of-each-class", i, "uniq", &data, &darr(&uniq_ref(&a)));
            ctx.exact("size", "agrees-with-indexing", i, "size", &data, &format!("i:{}", a.len()));
        },
        |i| json!({"a": seq_decode(i, n, maxlen)}),
    );
    ctx.report.family(FamilyStat { name, cases: total, nontrivial: total * 21, skipped: 0, note: "map (incl. the names size/first/last) where(truthy / target literal / target variable / nil and false targets / absent) compact-by-property sort-by-property(stable) sort_natural-by-property uniq size; properties present, absent, nil, false".into() });
}

fn long_arrays(ctx: &Ctx, lens: &[usize]) {
    long_arrays_over(ctx, lens, "small", [V::Int(0), V::Int(1), V::Int(2), V::s("a"), V::s("b"), V::Nil]);
    // numbers whose numeric and textual orders differ, next to text that starts with a digit: any comparator
    // that mixes two orderings (numeric between numbers, textual otherwise) has cycles here (9 < 10 < "1a" < 9)
    long_arrays_over(ctx, lens, "digits", [V::Int(9), V::Int(10), V::s("1a"), V::s("10"), V::s("B"), V::Nil]);
    long_rotations(ctx, lens);
}

fn lower_texts(a: &[V]) -> Vec<String> {
    a.iter()
        .map(|v| match v {
            V::Str(s) => s.to_lowercase(),
            V::Int(i) => i.to_string(),
            _ => String::new(),
        })
        .collect()
}

fn long_arrays_over(ctx: &Ctx, lens: &[usize], pname: &str, pool: [V; 6]) {
    let np = seq_count(6, 4) - 1;
    let total = np * lens.len() as u64;
    let name = format!("periodic long arrays over {pname}/L in {lens:?}");
    par_range(
        ctx.report,
        &name,
        total,
        |i| {
            let pat: Vec<V> = seq_decode(i % np + 1, 6, 4).iter().map(|k| pool[*k as usize].clone()).collect();
            let l = lens[(i / np) as usize];
            let a: Vec<V> = (0..l).map(|j| pat[j % pat.len()].clone()).collect();
            let data = V::obj(&[("a", V::Arr(a.clone()))]);
            let homogeneous = pat.iter().all(|v| matches!(v, V::Int(_) | V::Nil)) || pat.iter().all(|v| matches!(v, V::Str(_) | V::Nil));
            if homogeneous {
                ctx.exact("sort", "order-long", i, "sort", &data, &darr(&sort_scalars_ref(&a)));
            } else {
                ctx.permutation("sort", i, "sort", &data, &a);
            }
            ctx.permutation("sort_natural", i, "sort_natural", &data, &a);
            // whatever order sort_natural implements, it is an order: as lower-cased texts the result does not
            // depend on how the input was arranged
            ctx.agree("sort_natural", "depends-on-input-order", i, "sort_natural | join: '/' | downcase", "reverse | sort_natural | join: '/' | downcase", &data);
            if pname == "small" {
                ctx.exact("sort_natural", "order-long", i, "sort_natural | join: '/' | downcase", &data, &format!("s:{:?}", lower_texts(&sort_natural_ref(&a)).join("/")));
            }
            ctx.permutation("reverse", i, "reverse", &data, &a);
            ctx.exact("uniq", "first-of-each-class", i, "uniq", &data, &darr(&uniq_ref(&a)));
            ctx.exact("compact", "removes-exactly-nils", i, "compact", &data, &darr(&a.iter().filter(|v| **v != V::Nil).cloned().collect::<Vec<_>>()));
            ctx.exact("size", "agrees-with-indexing", i, "size", &data, &format!("i:{l}"));
        },
        |i| json!({"pattern": seq_decode(i % np + 1, 6, 4), "L": lens[(i / np) as usize]}),
    );
    ctx.report.family(FamilyStat { name, cases: total, nontrivial: total * 8, skipped: 0, note: format!("all patterns of length <= 4 over the pool {:?} repeated to L (beyond the 20-element threshold of the standard sort): exact order when mutually comparable, otherwise no failure + permutation; sort_natural as lower-cased text is the same for the reversed input (and, over the small pool, the case-insensitive textual order)", pool.iter().map(|v| dump_v(v)).collect::<Vec<_>>()) });
}

fn long_rotations(ctx: &Ctx, lens: &[usize]) {
    // rotations of sorted / reversed integer arrays, and object arrays sorted by key (stability at length > 20)
    let mut n = 0u64;
    for &l in lens {
        for rot in 0..l {
            for rev in [false, true] {
                let mut base: Vec<i64> = (0..l as i64).map(|x| x / 2).collect(); // duplicates
                if rev {
                    base.reverse();
                }
                base.rotate_left(rot);
                let a: Vec<V> = base.iter().map(|x| V::Int(*x)).collect();
                let data = V::obj(&[("a", V::Arr(a.clone()))]);
                ctx.exact("sort", "order-long", n, "sort", &data, &darr(&sort_scalars_ref(&a)));
                // stability: objects {k: x/2, id: position}
                let objs: Vec<V> = base.iter().enumerate().map(|(j, x)| V::obj(&[("k", V::Int(*x)), ("id", V::Int(j as i64))])).collect();
                let mut idx: Vec<usize> = (0..l).collect();
                idx.sort_by_key(|j| base[*j]);
                let want: Vec<V> = idx.iter().map(|j| objs[*j].clone()).collect();
                let data2 = V::obj(&[("a", V::Arr(objs))]);
                ctx.exact("sort", "stable-long", n, "sort: 'k'", &data2, &darr(&want));
                n += 1;
            }
        }
    }
    ctx.report.family(FamilyStat { name: "rotations of sorted/reversed arrays with duplicates".into(), cases: n, nontrivial: n * 2, skipped: 0, note: "exact order and stability (objects carrying their input position) at lengths beyond 20".into() });
}

pub fn run(tier: Tier) -> i32 {
    let report = Report::new("C14", tier, "exploration");
    report.set_rule("all arrays of length 0..L over {1,2,3,nil}, over {\"a\",\"A\",\"b\",\"B\",nil} and over a 7-object pool (property present / absent / nil / false / string, two-key objects); all offsets/lengths for slice; all periodic arrays pattern^k (|pattern| <= 4 over {0,1,2,\"a\",\"b\",nil}) at lengths 21..64 and all rotations of sorted/reversed arrays with duplicates; compared with reference implementations and laws through the structural dump filter; distinct by construction; non-trivial = one comparison against the reference or a law");
    report.assume("order among mutually incomparable elements is unspecified: only 'no failure' and 'permutation' are demanded there");
    let ctx = Ctx { report: &report, parser: cfgs::parser(Config::Stdlib), nontriv: AtomicU64::new(0) };
    let t = tier.thorough();
    scalar_arrays(&ctx, &[V::Int(1), V::Int(2), V::Int(3), V::Nil], "{1,2,3,nil}", if t { 8 } else { 5 });
    scalar_arrays(&ctx, &[V::s("a"), V::s("A"), V::s("b"), V::s("B"), V::Nil], "{a,A,b,B,nil}", if t { 7 } else { 5 });
    mixed_equal_arrays(&ctx, if t { 6 } else { 4 });
    object_arrays(&ctx, if t { 6 } else { 4 });
    if t {
        long_arrays(&ctx, &[21, 24, 32, 33, 40, 48, 64]);
    } else {
        long_arrays(&ctx, &[21, 24, 33]);
    }
    report.nontrivial.fetch_add(ctx.nontriv.load(Ordering::Relaxed), Ordering::Relaxed);
    report.sample(json!({"template": "{{ a | sort: 'p' | dump }}", "data": {"a": [{"p": 2}, {"p": 1, "q": 2}, {"p": null}, {"p": 1}]}, "expected": "[{p=i:1,q=i:2},{p=i:1},{p=i:2},{p=nil}]"}));
    report.finish()
}
