//! C01 — parsing is total; rejected text is an error carrying a message.
//!
//! Bounded-exhaustive enumeration of token sequences / tag argument lists /
//! output expressions / structural element sequences / nestings / single-edit
//! mutations, in three parser configurations.

use crate::cfgs::{self, Config};
use crate::report::{FamilyStat, Report, Tier};
use crate::run::{guard, par_range, seq_count, seq_decode};
use serde_json::json;
use std::collections::HashSet;
use std::sync::atomic::{AtomicU64, Ordering};
use std::sync::Mutex;

pub const UNKNOWN_TAG: &str = "frobnicate";
pub const UNKNOWN_FILTER: &str = "frobfilter";

pub fn a_full() -> Vec<&'static str> {
    vec![
        // delimiters with and without trim markers, stray braces
        "{{", "}}", "{%", "%}", "{{-", "-}}", "{%-", "-%}", "{", "}", "%", "-",
        // whitespace
        " ", "\t", "\n",
        // stdlib tag/block keywords and their inner/closing forms
        "assign", "break", "continue", "cycle", "include", "increment", "decrement", "render",
        "raw", "endraw", "if", "elsif", "else", "endif", "unless", "endunless", "ifchanged",
        "endifchanged", "for", "endfor", "tablerow", "endtablerow", "comment", "endcomment",
        "capture", "endcapture", "case", "when", "endcase",
        // argument keywords
        "in", "with", "as", "limit:", "offset:", "reversed", "cols:", "and", "or", "contains",
        // operators and punctuation
        "==", "!=", "<>", "<", ">", "<=", ">=", "=", "|", ":", ",", ".", "..", "(", ")", "[", "]",
        // literals
        "1", "-1", "+1", "1.5", "99999999999999999999", "-99999999999999999999", "'a'", "\"a\"",
        "'", "\"", "true", "nil", "empty", "blank",
        // identifiers, known and unknown names
        "x", "y", "a-b", "_z", "upcase", "append", UNKNOWN_FILTER, UNKNOWN_TAG,
        // non-ASCII
        "é", "👍",
    ]
}

fn a_inner() -> Vec<&'static str> {
    vec![
        "x", "y", "x.y", "x[0]", "a-b", "1", "-1", "1.5", "99999999999999999999", "'a'", "\"b\"",
        "'", "nil", "true", "empty", "(1..3)", "(x..y)", "(1..", "in", "with", "as", "for",
        "limit", "offset", "cols", "reversed", ":", ",", "=", "==", "<", "contains", "and", "or",
        "|", "upcase", UNKNOWN_FILTER, "..", "[", "é", "-",
    ]
}

fn a_expr() -> Vec<&'static str> {
    vec![
        "x", "y", "x.y", "x[0]", "x[y]", "[", "]", ".", "1", "-1", "1.5", "99999999999999999999",
        "'a'", "\"b\"", "'", "\"", "nil", "true", "|", ":", ",", "upcase", "append", "default",
        "allow_false", "slice", UNKNOWN_FILTER, "(1..3)", "é", "-", "=",
    ]
}

fn keywords(config: Config) -> Vec<(&'static str, Option<&'static str>)> {
    // (keyword, matching end tag if it is a block)
    let _ = config;
    vec![
        ("assign", None), ("break", None), ("continue", None), ("cycle", None), ("include", None),
        ("increment", None), ("decrement", None), ("render", None),
        ("raw", Some("endraw")), ("if", Some("endif")), ("unless", Some("endunless")),
        ("ifchanged", Some("endifchanged")), ("for", Some("endfor")),
        ("tablerow", Some("endtablerow")), ("comment", Some("endcomment")),
        ("capture", Some("endcapture")), ("case", Some("endcase")),
        ("else", None), ("elsif", None), ("when", None), ("endif", None), ("endfor", None),
        ("endcase", None), ("endraw", None), ("endcomment", None), (UNKNOWN_TAG, None),
    ]
}

struct Fam<'a> {
    report: &'a Report,
    name: String,
    nontrivial: AtomicU64,
    outcomes: Mutex<HashSet<u64>>,
}

impl<'a> Fam<'a> {
    fn new(report: &'a Report, name: String) -> Self {
        Fam { report, name, nontrivial: AtomicU64::new(0), outcomes: Mutex::new(HashSet::new()) }
    }
    fn finish(self, cases: u64, note: &str) {
        let nt = self.nontrivial.load(Ordering::Relaxed);
        self.report.nontrivial.fetch_add(nt, Ordering::Relaxed);
        self.report.outcomes_merge(self.outcomes.into_inner().unwrap());
        self.report.family(FamilyStat { name: self.name, cases, nontrivial: nt, skipped: 0, note: note.to_string() });
    }
}

#[derive(PartialEq, Eq, Clone, Copy, Debug)]
pub enum Claim {
    NoClaim,
    MustReject(&'static str),
}

/// Core oracle for one input: (a) returns, (b) Err has a message, (c) one-sided
/// rejection claim.
fn check_one(fam: &Fam, parser: &liquid::Parser, config: Config, idx: u64, text: &str, claim: Claim) {
    fam.report.eval();
    let r = guard(|| parser.parse(text).map(|_| ()).map_err(|e| e.to_string()));
    let witness = || json!({"kind": "parse", "config": config.name(), "family": fam.name, "index": idx, "text": text});
    match r {
        Err(pi) => {
            fam.report.violation(
                &format!("C01|{}", pi.sig()),
                idx,
                witness(),
                format!("parse {}", pi.describe()),
            );
        }
        Ok(Err(msg)) => {
            if msg.trim().is_empty() {
                fam.report.violation("C01|empty-error-message", idx, witness(), "Err with empty message".into());
            }
            if text.contains("{{") || text.contains("{%") {
                fam.nontrivial.fetch_add(1, Ordering::Relaxed);
            }
            let mut o = fam.outcomes.lock().unwrap();
            if o.len() < 200_000 {
                o.insert(crate::report::hash_of(&crate::cfgs::first_line(&msg)));
            }
        }
        Ok(Ok(())) => {
            if text.contains("{{") || text.contains("{%") {
                fam.nontrivial.fetch_add(1, Ordering::Relaxed);
            }
            if let Claim::MustReject(why) = claim {
                fam.report.violation(
                    &format!("C01|accepted|{}|{}", family_class(&fam.name), why),
                    idx,
                    witness(),
                    format!("text that must be rejected ({why}) parsed to a template"),
                );
            }
            let mut o = fam.outcomes.lock().unwrap();
            if o.len() < 200_000 {
                o.insert(1);
            }
        }
    }
}

fn family_class(name: &str) -> &str {
    name.split('/').next().unwrap_or(name)
}

// ------------------------------------------------------------------ F_tok

fn tok_text(alpha: &[&str], idx: u64, k: u32, sep: &str) -> String {
    let seq = seq_decode(idx, alpha.len() as u64, k);
    let mut s = String::new();
    for (i, t) in seq.iter().enumerate() {
        if i > 0 {
            s.push_str(sep);
        }
        s.push_str(alpha[*t as usize]);
    }
    s
}

fn f_tok(report: &Report, config: Config, k: u32, sep: &'static str) {
    let alpha = a_full();
    let n = seq_count(alpha.len() as u64, k);
    let parser = cfgs::parser(config);
    let fam = Fam::new(report, format!("F_tok/{}/k<={}/sep={:?}", config.name(), k, sep));
    par_range(
        report,
        &fam.name,
        n,
        |i| {
            let text = tok_text(&alpha, i, k, sep);
            check_one(&fam, &parser, config, i, &text, Claim::NoClaim);
        },
        |i| json!({"kind":"parse","config":config.name(),"text":tok_text(&alpha, i, k, sep)}),
    );
    if report.samples_len() < 6 {
        report.sample(json!({"family": fam.name, "text": tok_text(&alpha, n - 7, k, sep)}));
        report.sample(json!({"family": fam.name, "text": tok_text(&alpha, n / 2 + 13, k, sep)}));
    }
    fam.finish(n, &format!("alphabet={} tokens", alpha.len()));
}

// ------------------------------------------------------------------ F_tag

fn tag_text(kw: (&str, Option<&str>), alpha: &[&str], idx: u64, n: u32) -> String {
    let seq = seq_decode(idx, alpha.len() as u64, n);
    let mut s = format!("{{% {}", kw.0);
    for t in seq {
        s.push(' ');
        s.push_str(alpha[t as usize]);
    }
    s.push_str(" %}");
    if let Some(end) = kw.1 {
        s.push_str("body");
        s.push_str(&format!("{{% {end} %}}"));
    }
    s
}

fn tag_claim(kw: &str, config: Config, text: &str) -> Claim {
    // A quote character inside the tag can swallow the closing delimiter into a
    // string literal only if unterminated, in which case the tag is invalid anyway.
    if config == Config::Empty {
        return Claim::MustReject("tag unknown to the empty configuration");
    }
    if kw == UNKNOWN_TAG {
        return Claim::MustReject("unknown tag");
    }
    if matches!(kw, "else" | "elsif" | "when" | "endif" | "endfor" | "endcase" | "endraw" | "endcomment") {
        return Claim::MustReject("end/else/when tag without opener");
    }
    // `| frobfilter` anywhere in the arguments of a tag that reads its arguments: whether or not the position
    // allows a filter chain, a filter nobody registered cannot be accepted (quotes could hide the pipe: no claim then)
    if !matches!(kw, "raw" | "comment" | "break" | "continue" | "ifchanged") && !text.contains('\'') && !text.contains('"') && text.contains(&format!("| {UNKNOWN_FILTER}")) {
        return Claim::MustReject("unknown filter in a tag argument");
    }
    // `for` / `tablerow`: after `<name> in <source>` only `reversed` and `limit|offset|cols : <value>` may follow;
    // anything else in an option position is an argument nobody defined (no claim once a quote or a pipe is involved)
    if matches!(kw, "for" | "tablerow") && !text.contains('|') {
        let inner = text.trim_start_matches("{% ").split(" %}").next().unwrap_or("");
        let toks: Vec<&str> = inner.split(' ').skip(1).collect();
        let is_source = |t: &str| matches!(t, "x" | "y" | "x.y" | "x[0]" | "1" | "(1..3)" | "(x..y)" | "nil" | "true" | "empty");
        if toks.len() >= 4 && matches!(toks[0], "x" | "y") && toks[1] == "in" && is_source(toks[2]) {
            let mut r = &toks[3..];
            loop {
                match r {
                    [] => break,
                    ["reversed", rest @ ..] => r = rest,
                    ["limit" | "offset" | "cols", ":", v, rest @ ..] if is_source(v) => r = rest,
                    ["limit" | "offset" | "cols", ..] => break, // malformed option: rejected or not, no claim here
                    _ => return Claim::MustReject("undefined loop argument"),
                }
            }
        }
    }
    Claim::NoClaim
}

/// the tokens it takes to put a filter chain (known / unknown filter, with an argument, chained) into any argument
/// position of a tag (and a loop head with its options): short enough to go four to five tokens deep in every keyword
fn a_pipes() -> Vec<&'static str> {
    vec!["x", "1", "|", UNKNOWN_FILTER, "upcase", "in", "=", ":", ",", "reversed", "limit"]
}

fn f_tag(report: &Report, config: Config, n: u32) {
    f_tag_over(report, config, n, a_inner(), "F_tag");
}

fn f_tag_over(report: &Report, config: Config, n: u32, alpha: Vec<&'static str>, label: &str) {
    let kws = keywords(config);
    let per = seq_count(alpha.len() as u64, n);
    let total = per * kws.len() as u64;
    let parser = cfgs::parser(config);
    let fam = Fam::new(report, format!("{label}/{}/n<={}", config.name(), n));
    par_range(
        report,
        &fam.name,
        total,
        |i| {
            let kw = kws[(i / per) as usize];
            let text = tag_text(kw, &alpha, i % per, n);
            let claim = tag_claim(kw.0, config, &text);
            check_one(&fam, &parser, config, i, &text, claim);
        },
        |i| json!({"kind":"parse","config":config.name(),"text":tag_text(kws[(i / per) as usize], &alpha, i % per, n)}),
    );
    report.sample(json!({"family": fam.name, "text": tag_text(kws[12], &alpha, per - 5, n)}));
    fam.finish(total, &format!("keywords={} arg-alphabet={}", kws.len(), alpha.len()));
}

// ------------------------------------------------------------------ F_out

fn out_text(alpha: &[&'static str], idx: u64, n: u32) -> (String, Vec<&'static str>) {
    let seq = seq_decode(idx, alpha.len() as u64, n);
    let toks: Vec<&'static str> = seq.iter().map(|t| alpha[*t as usize]).collect();
    (format!("{{{{ {} }}}}", toks.join(" ")), toks)
}

/// One-sided claims for `{{ t1 .. tn }}`.
fn out_claim(toks: &[&str]) -> Claim {
    if toks.is_empty() {
        return Claim::MustReject("empty output tag");
    }
    // quote scan over the inner text
    let inner = toks.join(" ");
    let mut open: Option<char> = None;
    for c in inner.chars() {
        match open {
            None => {
                if c == '\'' || c == '"' {
                    open = Some(c);
                }
            }
            Some(q) => {
                if c == q {
                    open = None;
                }
            }
        }
    }
    if open.is_some() {
        return Claim::MustReject("unterminated quote inside markup");
    }
    let has_lone_quote = toks.iter().any(|t| *t == "'" || *t == "\"");
    if !has_lone_quote {
        for w in toks.windows(2) {
            if w[0] == "|" && w[1] == UNKNOWN_FILTER {
                return Claim::MustReject("unknown filter");
            }
        }
        if toks.last() == Some(&"|") || toks.first() == Some(&"|") {
            return Claim::MustReject("dangling pipe");
        }
    }
    Claim::NoClaim
}

fn f_out(report: &Report, config: Config, n: u32) {
    let alpha = a_expr();
    let total = seq_count(alpha.len() as u64, n);
    let parser = cfgs::parser(config);
    let fam = Fam::new(report, format!("F_out/{}/n<={}", config.name(), n));
    par_range(
        report,
        &fam.name,
        total,
        |i| {
            let (text, toks) = out_text(&alpha, i, n);
            let mut claim = out_claim(&toks);
            if config == Config::Empty && claim == Claim::NoClaim && toks.contains(&"|") && !toks.iter().any(|t| *t == "'" || *t == "\"") {
                // every filter name is unknown in the empty configuration
                // (the harness's own `dump` is not in the alphabet)
                claim = Claim::MustReject("filter unknown to the empty configuration");
            }
            check_one(&fam, &parser, config, i, &text, claim);
        },
        |i| json!({"kind":"parse","config":config.name(),"text":out_text(&alpha, i, n).0}),
    );
    report.sample(json!({"family": fam.name, "text": out_text(&alpha, total - 3, n).0}));
    fam.finish(total, &format!("expr-alphabet={}", alpha.len()));
}

// ------------------------------------------------------------------ F_arity (filter arity via reflection)

fn f_arity(report: &Report) {
    use liquid::reflection::ParserReflection;
    let config = Config::Full;
    let parser = cfgs::parser(config);
    let fam = Fam::new(report, "F_arity/stdlib+jekyll+shopify+extra".to_string());
    let mut cases: Vec<(String, Claim)> = Vec::new();
    for f in parser.filters() {
        let name = f.name();
        if name == "dump" {
            continue;
        }
        let pos = f.positional_parameters();
        let required = pos.iter().filter(|p| !p.is_optional).count();
        let total = pos.len();
        let kws: Vec<&str> = f.keyword_parameters().iter().map(|p| p.name).collect();
        let kw_required = f.keyword_parameters().iter().filter(|p| !p.is_optional).count();
        for npos in 0..=(total + 2) {
            let args: Vec<String> = (0..npos).map(|i| format!("{}", i + 1)).collect();
            let text = if npos == 0 {
                format!("{{{{ x | {name} }}}}")
            } else {
                format!("{{{{ x | {name}: {} }}}}", args.join(", "))
            };
            let claim = if npos > total {
                Claim::MustReject("too many positional filter arguments")
            } else if npos < required || kw_required > 0 {
                Claim::MustReject("missing required filter argument")
            } else {
                Claim::NoClaim
            };
            cases.push((text, claim));
            // undeclared keyword argument
            if !kws.contains(&"zzz") {
                let text = if npos == 0 {
                    format!("{{{{ x | {name}: zzz: 1 }}}}")
                } else {
                    format!("{{{{ x | {name}: {}, zzz: 1 }}}}", args.join(", "))
                };
                cases.push((text, Claim::MustReject("undeclared keyword filter argument")));
            }
        }
    }
    let n = cases.len() as u64;
    par_range(
        report,
        &fam.name,
        n,
        |i| {
            let (text, claim) = &cases[i as usize];
            check_one(&fam, &parser, config, i, text, *claim);
        },
        |i| json!({"kind":"parse","config":config.name(),"text":cases[i as usize].0}),
    );
    report.sample(json!({"family": fam.name, "text": cases[cases.len() / 2].0}));
    fam.finish(n, "arity bounds taken from FilterReflection");
}

// ------------------------------------------------------------------ F_struct

const STRUCT_ITEMS: [&str; 18] = [
    "{% if x %}", "{% else %}", "{% endif %}", "{% for i in a %}", "{% endfor %}", "{% case x %}",
    "{% when 1 %}", "{% endcase %}", "{% comment %}", "{% endcomment %}", "{% raw %}",
    "{% endraw %}", "{% capture c %}", "{% endcapture %}", "{{ x }}", "{{ !! }}", "{% if x", "text",
];

#[derive(Clone, Copy, PartialEq, Eq, Debug)]
enum Ctx {
    If { else_seen: bool },
    For { else_seen: bool },
    Case { else_seen: bool },
    Capture,
    Comment,
    Raw,
}

/// Independent structural reference: decides whether a sequence of complete
/// elements is *definitely* outside the language.
pub fn struct_claim(seq: &[u64]) -> Claim {
    let mut st: Vec<Ctx> = Vec::new();
    for (pos, &it) in seq.iter().enumerate() {
        let top = st.last().copied();
        match top {
            Some(Ctx::Raw) => {
                if it == 11 {
                    st.pop();
                }
                continue;
            }
            Some(Ctx::Comment) => {
                match it {
                    14 | 15 | 16 | 17 => {}
                    9 => {
                        st.pop();
                    }
                    8 => st.push(Ctx::Comment),
                    // other tags inside a comment are parsed by the implementation in an
                    // implementation-defined way: no claim for this input -- except that a comment
                    // can only ever be closed by an `endcomment`: if none follows, the input is
                    // unclosed however the inside is read
                    _ => {
                        if !seq[pos + 1..].contains(&9) {
                            return Claim::MustReject("comment block never closed");
                        }
                        return Claim::NoClaim;
                    }
                }
                continue;
            }
            _ => {}
        }
        match it {
            14 | 17 => {}
            15 => return Claim::MustReject("invalid output tag outside raw/comment"),
            16 => return Claim::MustReject("unclosed tag delimiter outside raw/comment"),
            0 => st.push(Ctx::If { else_seen: false }),
            3 => st.push(Ctx::For { else_seen: false }),
            5 => st.push(Ctx::Case { else_seen: false }),
            8 => st.push(Ctx::Comment),
            10 => st.push(Ctx::Raw),
            12 => st.push(Ctx::Capture),
            1 => match st.last_mut() {
                None => return Claim::MustReject("else without opener"),
                Some(Ctx::If { else_seen }) | Some(Ctx::For { else_seen }) | Some(Ctx::Case { else_seen }) => {
                    if *else_seen {
                        return Claim::NoClaim;
                    }
                    *else_seen = true;
                }
                Some(_) => return Claim::NoClaim,
            },
            6 => match st.last() {
                None => return Claim::MustReject("when without opener"),
                Some(Ctx::Case { else_seen: false }) => {}
                Some(_) => return Claim::NoClaim,
            },
            2 | 4 | 7 | 9 | 11 | 13 => {
                let want = match it {
                    2 => "if",
                    4 => "for",
                    7 => "case",
                    9 => "comment",
                    11 => "raw",
                    _ => "capture",
                };
                match st.last() {
                    None => return Claim::MustReject("end tag without opener"),
                    Some(c) => {
                        let have = match c {
                            Ctx::If { .. } => "if",
                            Ctx::For { .. } => "for",
                            Ctx::Case { .. } => "case",
                            Ctx::Capture => "capture",
                            Ctx::Comment => "comment",
                            Ctx::Raw => "raw",
                        };
                        if have == want {
                            st.pop();
                        } else {
                            return Claim::MustReject("mis-nested end tag");
                        }
                    }
                }
            }
            _ => unreachable!(),
        }
    }
    if !st.is_empty() {
        return Claim::MustReject("unclosed block at end of input");
    }
    Claim::NoClaim
}

fn struct_text(seq: &[u64]) -> String {
    seq.iter().map(|i| STRUCT_ITEMS[*i as usize]).collect::<Vec<_>>().join("")
}

fn f_struct(report: &Report, config: Config, n: u32) {
    let a = STRUCT_ITEMS.len() as u64;
    let total = seq_count(a, n);
    let parser = cfgs::parser(config);
    let fam = Fam::new(report, format!("F_struct/{}/n<={}", config.name(), n));
    let claims = AtomicU64::new(0);
    par_range(
        report,
        &fam.name,
        total,
        |i| {
            let seq = seq_decode(i, a, n);
            let text = struct_text(&seq);
            let claim = struct_claim(&seq);
            if claim != Claim::NoClaim {
                claims.fetch_add(1, Ordering::Relaxed);
            }
            check_one(&fam, &parser, config, i, &text, claim);
        },
        |i| json!({"kind":"parse","config":config.name(),"text":struct_text(&seq_decode(i, a, n))}),
    );
    report.sample(json!({"family": fam.name, "text": struct_text(&seq_decode(total - 11, a, n))}));
    fam.finish(total, &format!("items={} must-reject-claims={}", a, claims.load(Ordering::Relaxed)));
}

// ------------------------------------------------------------------ F_nest

fn nest_cases() -> Vec<(String, Claim)> {
    let kinds: [(&str, &str); 9] = [
        ("{% if x %}", "{% endif %}"),
        ("{% unless x %}", "{% endunless %}"),
        ("{% for i in a %}", "{% endfor %}"),
        ("{% tablerow i in a %}", "{% endtablerow %}"),
        ("{% case x %}{% when 1 %}", "{% endcase %}"),
        ("{% capture c %}", "{% endcapture %}"),
        ("{% ifchanged %}", "{% endifchanged %}"),
        ("{% comment %}", "{% endcomment %}"),
        ("{% raw %}", "{% endraw %}"),
    ];
    let mut out = Vec::new();
    for (ki, (open, close)) in kinds.iter().enumerate() {
        for depth in 1..=32usize {
            let mut elems: Vec<&str> = Vec::new();
            for _ in 0..depth {
                elems.push(open);
                elems.push("t");
            }
            elems.push("{{ x }}");
            let closes = if *open == "{% raw %}" { 1 } else { depth };
            for _ in 0..closes {
                elems.push(close);
            }
            // complete
            out.push((elems.concat(), Claim::NoClaim));
            // truncated at every element boundary (strictly inside)
            for cut in 1..elems.len() {
                let text = elems[..cut].concat();
                out.push((text, Claim::MustReject("unclosed block at end of input")));
            }
            // truncated in the middle of the last kept element
            for cut in 1..elems.len() {
                let mut text = elems[..cut].concat();
                text.pop();
                out.push((text, Claim::NoClaim));
            }
            // closed in the wrong order: one foreign end tag inside
            if depth <= 8 && *open != "{% raw %}" && *open != "{% comment %}" {
                let other = kinds[(ki + 1) % 7];
                let mut e2: Vec<&str> = Vec::new();
                for _ in 0..depth {
                    e2.push(open);
                }
                e2.push(other.0);
                for _ in 0..depth {
                    e2.push(close);
                }
                e2.push(other.1);
                out.push((e2.concat(), Claim::MustReject("mis-nested end tag")));
            }
        }
    }
    // mixed nesting: cyclic through the kinds
    for depth in 1..=32usize {
        let mut s = String::new();
        for d in 0..depth {
            s.push_str(kinds[d % 7].0);
        }
        s.push_str("{{ x }}");
        for d in (0..depth).rev() {
            s.push_str(kinds[d % 7].1);
        }
        out.push((s.clone(), Claim::NoClaim));
        // drop the last close tag
        let cut = s.rfind("{%").unwrap();
        out.push((s[..cut].to_string(), Claim::MustReject("unclosed block at end of input")));
    }
    out
}

fn f_nest(report: &Report, config: Config) {
    let cases = nest_cases();
    let parser = cfgs::parser(config);
    let fam = Fam::new(report, format!("F_nest/{}", config.name()));
    let n = cases.len() as u64;
    par_range(
        report,
        &fam.name,
        n,
        |i| {
            let (text, claim) = &cases[i as usize];
            check_one(&fam, &parser, config, i, text, *claim);
        },
        |i| json!({"kind":"parse","config":config.name(),"text":cases[i as usize].0}),
    );
    fam.finish(n, "depth 1..32, closed / truncated at every boundary / mid-element / wrong order");
}

// ------------------------------------------------------------------ F_mut

pub fn corpus() -> Vec<String> {
    let mut c: Vec<String> = vec![
        "{{ x }}", "{{ x | upcase }}", "{{ x.y[0] | append: 'a' | size }}", "{{- x -}}",
        "{% assign y = x | plus: 1 %}{{ y }}", "{% if x == 1 and y or z contains 'a' %}a{% elsif y %}b{% else %}c{% endif %}",
        "{% unless x %}a{% else %}b{% endunless %}", "{% for i in (1..3) reversed limit:2 offset:1 %}{{ i }}{% else %}e{% endfor %}",
        "{% for i in a %}{% if i == 2 %}{% break %}{% endif %}{{ forloop.index }}{% continue %}{% endfor %}",
        "{% tablerow i in a cols:2 limit:3 %}{{ i }}{% endtablerow %}", "{% case x %}{% when 1, 2 or 3 %}a{% when 'b' %}b{% else %}c{% endcase %}",
        "{% capture c %}a{{ x }}{% endcapture %}{{ c }}", "{% comment %} {{ !! }} {% if %} {% endcomment %}",
        "{% raw %}{{ x }}{% if %}{% endraw %}", "{% cycle 'a', 'b' %}{% cycle g: 1, 2 %}", "{% increment n %}{% decrement n %}",
        "{% include 'p' %}{% include p a: 1, b: x %}", "{% render 'p', a: 1 %}{% render 'p' with x as y %}{% render 'p' for a as i %}",
        "{% ifchanged %}{{ x }}{% endifchanged %}", "a {%- if x -%} b {%- endif -%} c", "{{ 'é👍' | slice: 0, 1 }}",
        "{{ \"a\" | default: 'b' }}", "{{ x | date: '%Y-%m-%d' }}", "x{{ -1 }}{{ +1.5 }}{{ nil }}{{ true }}{{ empty }}",
        "{% assign a-b = 'x' %}{{ a-b }}", "{%if x%}a{%endif%}", "{{x|upcase|downcase}}", "{% for i in a %}{% for j in b %}{{ forloop.parentloop.index }}{% endfor %}{% endfor %}",
        "\t{%-\tassign\tx\t=\t1\t-%}\t", "{{ x[\"k\"]['j'][0].first.size }}",
    ]
    .into_iter()
    .map(String::from)
    .collect();
    // compositions: every ordered pair of the first 16 (well-formed by construction)
    let base: Vec<String> = c.iter().take(16).cloned().collect();
    for a in &base {
        for b in &base {
            if a != b {
                c.push(format!("{a}{b}"));
            }
        }
    }
    // nesting of a few inside blocks
    for a in base.iter().take(10) {
        c.push(format!("{{% if x %}}{a}{{% endif %}}"));
        c.push(format!("{{% for i in a %}}{a}{{% endfor %}}"));
        c.push(format!("{{% capture q %}}{a}{{% endcapture %}}"));
    }
    c
}

const SPECIALS: [char; 12] = ['{', '}', '%', '-', '\'', '"', '|', ':', ' ', '\t', 'é', '.'];

/// edit kinds at char position p: delete, duplicate, transpose with next, replace by special s
fn mutate(chars: &[char], p: usize, kind: usize) -> Option<String> {
    let mut v: Vec<char> = chars.to_vec();
    match kind {
        0 => {
            v.remove(p);
        }
        1 => {
            let c = v[p];
            v.insert(p, c);
        }
        2 => {
            if p + 1 >= v.len() {
                return None;
            }
            v.swap(p, p + 1);
        }
        k => {
            let s = SPECIALS[k - 3];
            if v[p] == s {
                return None;
            }
            v[p] = s;
        }
    }
    Some(v.into_iter().collect())
}

fn f_mut(report: &Report, config: Config, pairs: bool) {
    let corpus = corpus();
    let parser = cfgs::parser(config);
    let fam = Fam::new(report, format!("F_mut/{}/{}", config.name(), if pairs { "double-edit<=40chars" } else { "single-edit" }));
    let kinds = 3 + SPECIALS.len();
    // corpus sanity: every template parses in the stdlib configuration
    if config != Config::Empty && !pairs {
        let bad = corpus.iter().filter(|t| parser.parse(t).is_err()).count();
        report.extra("corpus_templates_not_parsing", json!(bad));
        // the corpus entries are mutation *seeds*, not oracles (C01 does not claim acceptance): a tree that
        // rejects some of them still gets its edits enumerated; only a corpus that is mostly unusable is a
        // machinery failure
        if bad * 2 > corpus.len() {
            eprintln!("harness self-test: {bad} of {} corpus templates do not parse", corpus.len());
            std::process::exit(2);
        } else if bad * 10 > corpus.len() {
            eprintln!("[C01] note: {bad} of {} mutation seeds do not parse on this tree (recorded in the evidence; enumeration continues)", corpus.len());
        }
    }
    // index space: (template, pos, kind) [x (pos2, kind2)]
    let mut offs: Vec<(usize, u64)> = Vec::new(); // (template idx, start offset)
    let mut total: u64 = 0;
    for (ti, t) in corpus.iter().enumerate() {
        let len = t.chars().count() as u64;
        if pairs && len > 40 {
            continue;
        }
        offs.push((ti, total));
        let single = len * kinds as u64;
        total += if pairs { single * (len + 1) * kinds as u64 } else { single };
    }
    let chars: Vec<Vec<char>> = corpus.iter().map(|t| t.chars().collect()).collect();
    let gen = |i: u64| -> Option<String> {
        let pos = offs.partition_point(|(_, o)| *o <= i) - 1;
        let (ti, o) = offs[pos];
        let c = &chars[ti];
        let mut r = i - o;
        let k1 = (r % kinds as u64) as usize;
        r /= kinds as u64;
        let p1 = (r % c.len() as u64) as usize;
        r /= c.len() as u64;
        let m1 = mutate(c, p1, k1)?;
        if !pairs {
            return Some(m1);
        }
        let c2: Vec<char> = m1.chars().collect();
        let k2 = (r % kinds as u64) as usize;
        r /= kinds as u64;
        let p2 = r as usize;
        if p2 >= c2.len() {
            return None;
        }
        mutate(&c2, p2, k2)
    };
    par_range(
        report,
        &fam.name,
        total,
        |i| {
            if let Some(text) = gen(i) {
                check_one(&fam, &parser, config, i, &text, Claim::NoClaim);
            }
        },
        |i| json!({"kind":"parse","config":config.name(),"text":gen(i)}),
    );
    report.sample(json!({"family": fam.name, "text": gen(total / 3)}));
    fam.finish(total, &format!("corpus={} templates, edits=delete/duplicate/transpose/replace-by-{}-specials", corpus.len(), SPECIALS.len()));
}

// ------------------------------------------------------------------ F_line (error reporting path)

/// Invalid markup preceded, on the same line, by multi-byte text, quotes and valid
/// markup: the error path re-parses from the start of the offending line, which
/// mixes character columns and byte offsets.
fn f_line(report: &Report, config: Config, k: u32) {
    let pre = ["é", "👍", "日本", "'", "\"", "{{ 'éé' }}", "{{ \"日\" }}", "x", " ", "\n", "{% assign v = 'é' %}", "}}"];
    let bad = ["{{ ' }}", "{{ \" }}", "{{ x", "{% if", "{{ | }}", "{{ !! }}", "{% assign = %}{{", "{{ 'é", "{{ 名 }}"];
    let suf = ["", "'", "\"", " }}", "é' }}"];
    let np = seq_count(pre.len() as u64, k);
    let total = np * bad.len() as u64 * suf.len() as u64;
    let parser = cfgs::parser(config);
    let fam = Fam::new(report, format!("F_line/{}/prefix<={}", config.name(), k));
    let build = |i: u64| -> String {
        let d = crate::run::decode(i, &[np, bad.len() as u64, suf.len() as u64]);
        let p: String = seq_decode(d[0], pre.len() as u64, k).iter().map(|t| pre[*t as usize]).collect();
        format!("{p}{}{}", bad[d[1] as usize], suf[d[2] as usize])
    };
    par_range(
        report,
        &fam.name,
        total,
        |i| {
            let text = build(i);
            check_one(&fam, &parser, config, i, &text, Claim::NoClaim);
        },
        |i| json!({"kind":"parse","config":config.name(),"text":build(i)}),
    );
    report.sample(json!({"family": fam.name, "text": build(total / 2 + 5)}));
    fam.finish(total, "multi-byte / quoted / valid-markup prefixes x invalid markup x suffixes on one line");
}

// ------------------------------------------------------------------ big literal

fn f_bigint(report: &Report) {
    // 20-digit literals: Err, or carried as a float and printed as one.
    let fam = Fam::new(report, "F_bigint".to_string());
    let mut n = 0;
    for config in [Config::Stdlib, Config::Full] {
        let parser = cfgs::parser(config);
        for lit in ["99999999999999999999", "-99999999999999999999", "+99999999999999999999", "9223372036854775808", "-9223372036854775809", "18446744073709551616", "100000000000000000000000000000000000000000"] {
            for text in [format!("{{{{ {lit} }}}}"), format!("{{% assign x = {lit} %}}{{{{ x }}}}"), format!("{{% if {lit} > 1 %}}a{{% endif %}}"), format!("{{{{ 1 | plus: {lit} }}}}"), format!("{{% for i in (1..{lit}) limit: 1 %}}{{% endfor %}}")] {
                n += 1;
                report.eval();
                let r = guard(|| parser.parse(&text).map_err(|e| e.to_string()));
                let witness = json!({"kind":"parse","config":config.name(),"family":"F_bigint","text":text});
                match r {
                    Err(pi) => report.violation(&format!("C01|{}", pi.sig()), n, witness, format!("parse {}", pi.describe())),
                    Ok(Err(m)) => {
                        if m.trim().is_empty() {
                            report.violation("C01|empty-error-message", n, witness, "empty".into());
                        }
                    }
                    Ok(Ok(t)) => {
                        if text.starts_with("{{ ") && text.ends_with(&format!("{lit} }}}}")) && !text.contains('|') {
                            // must print as the float it denotes
                            let out = guard(|| t.render(&liquid::Object::new()).map_err(|e| e.to_string()));
                            let want: f64 = lit.parse().unwrap();
                            let ok = match &out {
                                Ok(Ok(s)) => s.parse::<f64>().map(|g| g == want).unwrap_or(false),
                                _ => false,
                            };
                            if !ok {
                                report.violation("C01|out-of-range-literal-accepted-as-other-value", n, witness, format!("literal {lit} parsed; rendered {out:?}"));
                            }
                        }
                    }
                }
            }
        }
    }
    fam.finish(n, "out-of-range integer literals: Err, or carried and printed as the float they denote");
}

pub fn run(tier: Tier) -> i32 {
    let report = Report::new("C01", tier, "exploration");
    report.set_rule("index-addressable exhaustive enumeration of token/argument/expression/structure sequences up to the stated lengths, nestings 1..32 and all single (thorough: double) character edits of a well-formed corpus; every case is distinct by construction; non-trivial = the text contains an opening markup delimiter and the parser returned (Ok or Err)");
    report.assume("panics are observed through catch_unwind in a panic=unwind build of the crates (the repository's own profiles use panic=abort)");
    report.assume("hangs are detected by a 30 s per-case watchdog; aborts (stack overflow, OOM) end the run with a non-verdict exit status");
    let t = tier.thorough();
    for config in Config::ALL {
        f_tok(&report, config, 2, "");
        f_tok(&report, config, 2, " ");
        if config == Config::Stdlib || t {
            f_tok(&report, config, 3, "");
            f_tok(&report, config, 3, " ");
        }
        f_tag(&report, config, if t { 3 } else { 2 });
        f_tag_over(&report, config, if t { 5 } else { 4 }, a_pipes(), "F_tag_pipes");
        f_out(&report, config, if t { 4 } else { 3 });
        f_nest(&report, config);
        f_mut(&report, config, false);
    }
    f_line(&report, Config::Stdlib, if t { 5 } else { 4 });
    f_arity(&report);
    f_bigint(&report);
    f_struct(&report, Config::Stdlib, if t { 6 } else { 4 });
    f_struct(&report, Config::Full, 4);
    if t {
        f_tok(&report, Config::Stdlib, 4, "");
        f_tag(&report, Config::Stdlib, 4);
        f_out(&report, Config::Stdlib, 5);
        f_mut(&report, Config::Stdlib, true);
    }
    report.finish()
}
