//! C13 — string filters compute their documented function on every string.

use crate::cfgs::{self, dump_v, Config, Outcome};
use crate::report::{FamilyStat, Report, Tier};
use crate::run::{decode, par_range, product, seq_count, seq_decode};
use crate::val::V;
use serde_json::json;
use std::sync::atomic::{AtomicU64, Ordering};

pub const SIGMA: [char; 10] = ['a', 'B', ' ', '\n', '\t', ',', '<', 'é', '\u{301}', '👍'];

fn string_of(idx: u64, k: u32) -> String {
    seq_decode(idx, SIGMA.len() as u64, k).iter().map(|i| SIGMA[*i as usize]).collect()
}

/// grapheme clusters for the alphabet: a combining mark attaches to the preceding
/// character unless that is a control character (LF, tab)
pub fn graphemes(s: &str) -> Vec<String> {
    let mut out: Vec<String> = Vec::new();
    for c in s.chars() {
        if c == '\u{301}' {
            if let Some(last) = out.last_mut() {
                let base = last.chars().next().unwrap();
                if base != '\n' && base != '\t' && base != '\r' {
                    last.push(c);
                    continue;
                }
            }
        }
        out.push(c.to_string());
    }
    out
}

fn units(s: &str, grapheme: bool) -> Vec<String> {
    if grapheme {
        graphemes(s)
    } else {
        s.chars().map(|c| c.to_string()).collect()
    }
}

fn is_ws(c: char) -> bool {
    c == ' ' || c == '\n' || c == '\t' || c == '\r'
}

fn find(hay: &[char], needle: &[char], from: usize) -> Option<usize> {
    if needle.is_empty() {
        return Some(from);
    }
    if hay.len() < needle.len() {
        return None;
    }
    (from..=hay.len() - needle.len()).find(|&i| hay[i..i + needle.len()] == *needle)
}

fn ref_split(s: &str, p: &str) -> Vec<String> {
    if s.is_empty() {
        return vec![];
    }
    let (h, n): (Vec<char>, Vec<char>) = (s.chars().collect(), p.chars().collect());
    let mut out = Vec::new();
    let mut start = 0;
    while let Some(i) = find(&h, &n, start) {
        out.push(h[start..i].iter().collect());
        start = i + n.len();
    }
    out.push(h[start..].iter().collect());
    out
}

fn ref_replace(s: &str, a: &str, b: &str, first_only: bool) -> String {
    let (h, n): (Vec<char>, Vec<char>) = (s.chars().collect(), a.chars().collect());
    if n.is_empty() {
        // empty pattern matches at every character boundary
        if first_only {
            return format!("{b}{s}");
        }
        let mut out = String::from(b);
        for c in &h {
            out.push(*c);
            out.push_str(b);
        }
        return out;
    }
    let mut out = String::new();
    let mut start = 0;
    while let Some(i) = find(&h, &n, start) {
        out.extend(h[start..i].iter());
        out.push_str(b);
        start = i + n.len();
        if first_only {
            break;
        }
    }
    out.extend(h[start..].iter());
    out
}

/// acceptable results: "character" may be read as scalar value or as grapheme
/// cluster independently for the length decision, the ellipsis length and the cut
/// (bytes never); a negative limit either truncates to the ellipsis (Shopify) or
/// leaves the input alone (the behaviour the repository's own tests pin)
fn ref_truncate(s: &str, n: i64, e: &str) -> Vec<String> {
    let mut v = Vec::new();
    if n < 0 {
        v.push(s.to_string());
    }
    for gd in [false, true] {
        for ge in [false, true] {
            for gc in [false, true] {
                let n0 = n.max(0) as usize;
                if units(s, gd).len() <= n0 {
                    v.push(s.to_string());
                } else {
                    let l = n0.saturating_sub(units(e, ge).len());
                    let su = units(s, gc);
                    v.push(format!("{}{e}", su[..l.min(su.len())].concat()));
                }
            }
        }
    }
    v.sort();
    v.dedup();
    v
}

fn ref_slice(s: &str, off: i64, len: i64) -> Vec<String> {
    let mut v = Vec::new();
    for g in [false, true] {
        let su = units(s, g);
        let n = su.len() as i64;
        let mut o = off;
        if o < 0 {
            o += n;
        }
        if o < 0 || o > n || len <= 0 {
            v.push(String::new());
            continue;
        }
        let end = (o + len).min(n);
        v.push(su[o as usize..end as usize].concat());
    }
    v
}

struct Ctx<'a> {
    report: &'a Report,
    parser: liquid::Parser,
    nontriv: AtomicU64,
}

impl Ctx<'_> {
    /// render `{{ s | <chain> | dump }}` with the given data
    fn render(&self, chain: &str, data: &V) -> Outcome {
        self.report.eval();
        cfgs::run_case(&self.parser, &format!("{{{{ s | {chain} | dump }}}}"), &data.to_object()).0
    }

    fn expect(&self, filter: &str, clause: &str, idx: u64, chain: &str, data: &V, acceptable: &[String]) {
        let actual = self.render(chain, data);
        let ok = match &actual {
            Outcome::Ok(s) => acceptable.iter().any(|a| a == s),
            _ => false,
        };
        self.nontriv.fetch_add(1, Ordering::Relaxed);
        if idx % 211 == 0 {
            self.report.outcome(&actual.short());
        }
        if !ok {
            let class = if let Outcome::Panic(m) = &actual { format!("panic|{}", crate::report::norm_msg(m)) } else { clause.to_string() };
            let nonascii = match data {
                V::Obj(o) => o.iter().any(|(_, v)| matches!(v, V::Str(s) if !s.is_ascii())),
                _ => false,
            };
            self.report.violation(
                &format!("C13|{filter}|{class}|{}", if nonascii { "non-ascii" } else { "ascii" }),
                idx,
                json!({"kind":"render","template":format!("{{{{ s | {chain} | dump }}}}"),"data":data.to_json(),"partials":[],"expected_any_of":acceptable,"actual":actual.to_json()}),
                format!("{{{{ s | {chain} }}}} on {}: expected one of {acceptable:?}, got {}", data.to_json(), actual.short()),
            );
        }
    }
}

fn ds(s: &str) -> String {
    dump_v(&V::s(s))
}

fn unary_filters(ctx: &Ctx, k: u32) {
    let total = seq_count(SIGMA.len() as u64, k);
    let name = format!("unary/len<={k}");
    par_range(
        ctx.report,
        &name,
        total,
        |i| {
            let s = string_of(i, k);
            let data = V::obj(&[("s", V::s(&s))]);
            let chars: Vec<char> = s.chars().collect();
            ctx.expect("upcase", "value", i, "upcase", &data, &[ds(&chars.iter().flat_map(|c| c.to_uppercase()).collect::<String>())]);
            ctx.expect("downcase", "value", i, "downcase", &data, &[ds(&chars.iter().flat_map(|c| c.to_lowercase()).collect::<String>())]);
            {
                let mut a = String::new();
                let mut b = String::new();
                for (j, c) in chars.iter().enumerate() {
                    if j == 0 {
                        a.extend(c.to_uppercase());
                        b.extend(c.to_uppercase());
                    } else {
                        a.push(*c);
                        b.extend(c.to_lowercase());
                    }
                }
                ctx.expect("capitalize", "value", i, "capitalize", &data, &[ds(&a), ds(&b)]);
            }
            let l = s.trim_start_matches(is_ws);
            let r = s.trim_end_matches(is_ws);
            let both = l.trim_end_matches(is_ws);
            ctx.expect("lstrip", "value", i, "lstrip", &data, &[ds(l)]);
            ctx.expect("rstrip", "value", i, "rstrip", &data, &[ds(r)]);
            ctx.expect("strip", "value", i, "strip", &data, &[ds(both)]);
            // law: strip == lstrip after rstrip
            ctx.expect("strip", "law-strip-is-lstrip-of-rstrip", i, "rstrip | lstrip", &data, &[ds(both)]);
            ctx.expect("strip_newlines", "value", i, "strip_newlines", &data, &[ds(&chars.iter().filter(|c| **c != '\n' && **c != '\r').collect::<String>())]);
            ctx.expect("newline_to_br", "value", i, "newline_to_br", &data, &[ds(&s.replace('\n', "<br />\n")), ds(&s.replace('\n', "<br>\n")), ds(&s.replace('\n', "<br/>\n"))]);
            let sizes = [s.chars().count(), graphemes(&s).len()];
            ctx.expect("size", "counts-characters", i, "size", &data, &[format!("i:{}", sizes[0]), format!("i:{}", sizes[1])]);
            let g = graphemes(&s);
            ctx.expect("first", "value", i, "first", &data, &[ds(&chars.first().map(|c| c.to_string()).unwrap_or_default()), ds(&g.first().cloned().unwrap_or_default())]);
            ctx.expect("last", "value", i, "last", &data, &[ds(&chars.last().map(|c| c.to_string()).unwrap_or_default()), ds(&g.last().cloned().unwrap_or_default())]);
        },
        |i| json!({"s": string_of(i, k)}),
    );
    ctx.report.family(FamilyStat { name, cases: total * 13, nontrivial: total * 13, skipped: 0, note: "upcase downcase capitalize lstrip rstrip strip strip_newlines newline_to_br size first last + strip law".into() });
}

fn one_arg_filters(ctx: &Ctx, k: u32, ka: u32) {
    let ns = seq_count(SIGMA.len() as u64, k);
    let na = seq_count(SIGMA.len() as u64, ka);
    let total = ns * na;
    let name = format!("one-string-argument/len<={k}/arg<={ka}");
    par_range(
        ctx.report,
        &name,
        total,
        |i| {
            let s = string_of(i % ns, k);
            let a = string_of(i / ns, ka);
            let data = V::obj(&[("s", V::s(&s)), ("a", V::s(&a))]);
            ctx.expect("append", "value", i, "append: a", &data, &[ds(&format!("{s}{a}"))]);
            ctx.expect("prepend", "value", i, "prepend: a", &data, &[ds(&format!("{a}{s}"))]);
            ctx.expect("remove", "value", i, "remove: a", &data, &[ds(&ref_replace(&s, &a, "", false))]);
            ctx.expect("remove_first", "value", i, "remove_first: a", &data, &[ds(&ref_replace(&s, &a, "", true))]);
            ctx.expect("default", "value", i, "default: a", &data, &[ds(if s.is_empty() { &a } else { &s })]);
            if !a.is_empty() {
                let parts = ref_split(&s, &a);
                ctx.expect("split", "value", i, "split: a", &data, &[dump_v(&V::Arr(parts.iter().map(|p| V::s(p)).collect()))]);
                // law: split then join on the same non-empty separator is the identity
                ctx.expect("split", "law-split-join-identity", i, "split: a | join: a", &data, &[ds(&s)]);
                ctx.expect("join", "value", i, "split: a | join", &data, &[ds(&parts.join(" "))]);
                ctx.expect("join", "value", i, "split: a | join: s", &data, &[ds(&parts.join(&s))]);
            }
            // append/prepend vs concatenation
            ctx.expect("append", "law-associativity", i, "append: a | append: s", &data, &[ds(&format!("{s}{a}{s}"))]);
            ctx.expect("prepend", "law-associativity", i, "prepend: a | append: a", &data, &[ds(&format!("{a}{s}{a}"))]);
        },
        |i| json!({"s": string_of(i % ns, k), "a": string_of(i / ns, ka)}),
    );
    ctx.report.family(FamilyStat { name, cases: total * 11, nontrivial: total * 11, skipped: 0, note: "append prepend remove remove_first default split join + laws".into() });
}

fn two_arg_filters(ctx: &Ctx, k: u32, ka: u32) {
    let ns = seq_count(SIGMA.len() as u64, k);
    let na = seq_count(SIGMA.len() as u64, ka);
    let total = ns * na * na;
    let name = format!("replace/len<={k}/args<={ka}");
    par_range(
        ctx.report,
        &name,
        total,
        |i| {
            let d = decode(i, &[ns, na, na]);
            let (s, a, b) = (string_of(d[0], k), string_of(d[1], ka), string_of(d[2], ka));
            let data = V::obj(&[("s", V::s(&s)), ("a", V::s(&a)), ("b", V::s(&b))]);
            ctx.expect("replace", "value", i, "replace: a, b", &data, &[ds(&ref_replace(&s, &a, &b, false))]);
            ctx.expect("replace_first", "value", i, "replace_first: a, b", &data, &[ds(&ref_replace(&s, &a, &b, true))]);
        },
        |i| {
            let d = decode(i, &[ns, na, na]);
            json!({"s": string_of(d[0], k), "a": string_of(d[1], ka), "b": string_of(d[2], ka)})
        },
    );
    ctx.report.family(FamilyStat { name, cases: total * 2, nontrivial: total * 2, skipped: 0, note: "replace, replace_first".into() });
}

fn int_arg_filters(ctx: &Ctx, k: u32, ke: u32) {
    let ns = seq_count(SIGMA.len() as u64, k);
    let ne = seq_count(SIGMA.len() as u64, ke);
    let rad = [ns, 15, ne + 1, 16];
    let total = product(&rad);
    let name = format!("truncate-slice-truncatewords/len<={k}/n in [-6,8]/ellipsis<={ke}");
    par_range(
        ctx.report,
        &name,
        total,
        |i| {
            let d = decode(i, &rad);
            let s = string_of(d[0], k);
            let n = d[1] as i64 - 6;
            let e: Option<String> = if d[2] == ne { None } else { Some(string_of(d[2], ke)) };
            let m = d[3] as i64 - 7; // second integer (slice length) in [-7, 8]; 8 means absent
            let data = V::obj(&[("s", V::s(&s)), ("n", V::Int(n)), ("e", V::s(e.as_deref().unwrap_or(""))), ("m", V::Int(m))]);
            if d[3] == 0 {
                // truncate
                let ell = e.clone().unwrap_or_else(|| "...".to_string());
                let chain = if e.is_some() { "truncate: n, e" } else { "truncate: n" };
                let acc: Vec<String> = ref_truncate(&s, n, &ell).iter().map(|x| ds(x)).collect();
                ctx.expect("truncate", "value", i, chain, &data, &acc);
                // law: never longer than max(limit, |ellipsis|); prefix + ellipsis or unchanged
                ctx.report.eval();
                if let Outcome::Ok(out) = cfgs::run_case(&ctx.parser, &format!("{{{{ s | {chain} }}}}"), &data.to_object()).0 {
                    // measured in the reading most favourable to the implementation
                    let sz = (out.chars().count() as i64).min(graphemes(&out).len() as i64);
                    let lim = n.max(0).max(ell.chars().count() as i64);
                    let is_prefix_plus_ellipsis = out == s || (out.ends_with(ell.as_str()) && s.starts_with(&out[..out.len() - ell.len()]));
                    if sz > lim && out != s || !is_prefix_plus_ellipsis {
                        ctx.report.violation(
                            "C13|truncate|law-length-bound-or-prefix",
                            i,
                            json!({"kind":"render","template":format!("{{{{ s | {chain} }}}}"),"data":data.to_json(),"partials":[],"actual":out}),
                            format!("truncate of {s:?} to {n} with {ell:?} gave {out:?} (size {sz}, bound {lim})"),
                        );
                    }
                }
                // truncatewords to zero words: whatever the engine keeps for n = 0 (nothing, or one word as the
                // reference implementation does), the answer must not depend on whether the text has a second word:
                // a one-word text is cut exactly when the same text with ' y' appended is
                if n == 0 && !s.is_empty() && !s.contains(' ') && !s.contains('\n') && !s.contains('\t') {
                    let chain = if e.is_some() { "truncatewords: n, e" } else { "truncatewords: n" };
                    let two = V::obj(&[("s", V::s(&format!("{s} y"))), ("n", V::Int(n)), ("e", V::s(&ell))]);
                    if let (Outcome::Ok(a), Outcome::Ok(b)) = (ctx.render(chain, &data), ctx.render(chain, &two)) {
                        let keeps_none = b == ds(&ell);
                        if keeps_none && a != ds(&ell) {
                            ctx.report.violation("C13|truncatewords|zero-words-depends-on-spaces", i, json!({"kind":"render","template":format!("{{{{ s | {chain} }}}}"),"data":data.to_json(),"partials":[],"actual":a}), format!("truncatewords: 0 of {:?} is the ellipsis alone, of {s:?} it is {a}", format!("{s} y")));
                        }
                    }
                }
                // truncatewords: exact only on single-space separated words and n >= 1
                if n >= 1 && !s.contains("  ") && !s.contains('\n') && !s.contains('\t') {
                    let words: Vec<&str> = s.split(' ').collect();
                    let exp = if (n as usize) < words.len() { format!("{}{ell}", words[..n as usize].join(" ")) } else { s.clone() };
                    let chain = if e.is_some() { "truncatewords: n, e" } else { "truncatewords: n" };
                    ctx.expect("truncatewords", "value", i, chain, &data, &[ds(&exp)]);
                }
            } else {
                if d[2] != 0 {
                    return;
                }
                // slice: offset n, length m (absent when d[3] == 15)
                let (chain, len) = if d[3] == 15 { ("slice: n", 1) } else { ("slice: n, m", m) };
                let mut acc: Vec<String> = ref_slice(&s, n, len).iter().map(|x| ds(x)).collect();
                acc.dedup();
                let actual = ctx.render(chain, &data);
                ctx.nontriv.fetch_add(1, Ordering::Relaxed);
                let ok = match &actual {
                    Outcome::Ok(o) => acc.iter().any(|a| a == o),
                    Outcome::RenderErr(_) => len <= 0,
                    _ => false,
                };
                if !ok {
                    let class = if let Outcome::Panic(m) = &actual { format!("panic|{}", crate::report::norm_msg(m)) } else { "value".to_string() };
                    ctx.report.violation(
                        &format!("C13|slice|{class}|{}", if s.is_ascii() { "ascii" } else { "non-ascii" }),
                        i,
                        json!({"kind":"render","template":format!("{{{{ s | {chain} | dump }}}}"),"data":data.to_json(),"partials":[],"expected_any_of":acc,"actual":actual.to_json()}),
                        format!("{s:?} | {chain} (n={n}, m={m}): expected one of {acc:?}, got {}", actual.short()),
                    );
                }
            }
        },
        |i| json!({"index": i}),
    );
    ctx.report.family(FamilyStat { name, cases: total, nontrivial: total, skipped: 0, note: "truncate (+length law), truncatewords (single-space words, n>=1), slice with offset in [-6,8] and length in [-7,7] or absent".into() });
}

fn chains(ctx: &Ctx, k: u32, depth: u32) {
    let unary = ["upcase", "downcase", "capitalize", "strip", "lstrip", "rstrip", "strip_newlines", "newline_to_br", "first", "last", "append: a", "prepend: a", "remove: a", "size", "truncate: 2", "slice: 1, 2"];
    let ns = seq_count(SIGMA.len() as u64, k);
    let nc = seq_count(unary.len() as u64, depth) - 1;
    let total = ns * nc;
    let name = format!("chains/len<={k}/depth<={depth}");
    let skipped = AtomicU64::new(0);
    par_range(
        ctx.report,
        &name,
        total,
        |i| {
            let s = string_of(i % ns, k);
            let fs: Vec<&str> = seq_decode(i / ns + 1, unary.len() as u64, depth).iter().map(|j| unary[*j as usize]).collect();
            let data = V::obj(&[("s", V::s(&s)), ("a", V::s("B\u{301}"))]);
            let chain = fs.join(" | ");
            let direct = ctx.render(&chain, &data);
            // the same filters applied one at a time through assign
            let mut t = String::from("{% assign t = s %}");
            for f in &fs {
                t.push_str(&format!("{{% assign t = t | {f} %}}"));
            }
            t.push_str("{{ t | dump }}");
            ctx.report.eval();
            let stepwise = cfgs::run_case(&ctx.parser, &t, &data.to_object()).0;
            ctx.nontriv.fetch_add(1, Ordering::Relaxed);
            let same = match (&direct, &stepwise) {
                (Outcome::Ok(a), Outcome::Ok(b)) => a == b,
                (Outcome::RenderErr(_), Outcome::RenderErr(_)) => true,
                _ => false,
            };
            if !same {
                ctx.report.violation(
                    "C13|chain|not-left-to-right-composition",
                    i,
                    json!({"kind":"render","template":format!("{{{{ s | {chain} | dump }}}}"),"stepwise_template":t,"data":data.to_json(),"partials":[],"chain_result":direct.to_json(),"stepwise_result":stepwise.to_json()}),
                    format!("chain {chain} on {s:?}: direct {} vs stepwise {}", direct.short(), stepwise.short()),
                );
            }
            if direct.is_err() {
                skipped.fetch_add(1, Ordering::Relaxed);
            }
        },
        |i| json!({"index": i}),
    );
    ctx.report.family(FamilyStat { name, cases: total, nontrivial: total, skipped: skipped.load(Ordering::Relaxed), note: format!("{} single filters; chain result must equal the filters applied one per assign, left to right", unary.len()) });
}

pub fn run(tier: Tier) -> i32 {
    let report = Report::new("C13", tier, "exploration");
    report.set_rule("all strings up to length L over {a, B, space, LF, tab, ',', '<', e-acute, U+0301, thumbs-up} as input, all argument strings up to length A, every integer argument in [-6,8]; each filter compared with an independent character-based reference (both readings of 'character': scalar value and grapheme cluster; bytes never) and with the stated laws; chains of 1..D filters compared with stepwise application; distinct by construction; non-trivial = compared against the reference or a law");
    report.assume("capitalize may or may not lower-case the tail; truncatewords exact only on single-space separated words with n >= 1; slice with length <= 0 may be an error or empty; split with an empty pattern is unspecified");
    let ctx = Ctx { report: &report, parser: cfgs::parser(Config::Stdlib), nontriv: AtomicU64::new(0) };
    let t = tier.thorough();
    unary_filters(&ctx, if t { 5 } else { 4 });
    one_arg_filters(&ctx, if t { 4 } else { 3 }, if t { 2 } else { 1 });
    two_arg_filters(&ctx, 3, if t { 2 } else { 1 });
    int_arg_filters(&ctx, if t { 4 } else { 3 }, if t { 2 } else { 1 });
    chains(&ctx, 2, if t { 4 } else { 3 });
    report.nontrivial.fetch_add(ctx.nontriv.load(Ordering::Relaxed), Ordering::Relaxed);
    report.sample(json!({"template": "{{ s | truncate: n, e | dump }}", "data": {"s": "h\u{e9}\u{e9}a", "n": 3, "e": "\u{1F44D}"}, "expected_any_of": ["s:\"h\u{e9}\u{1F44D}\""]}));
    report.sample(json!({"template": "{{ s | split: a | join: a | dump }}", "data": {"s": ",a,,", "a": ","}, "expected": "s:\",a,,\""}));
    report.finish()
}
