//! C18 — scope layers compose predictably (runtime stack algebra).
//!
//! Explicit-state model checking (stateright) of an abstract stack-of-maps
//! model; every transition is replayed on the real frame types
//! (`RuntimeBuilder`, `StackFrame`, `SandboxedStackFrame`, `GlobalFrame`) and the
//! real observations are compared with the model's.

use crate::report::{FamilyStat, Report, Tier};
use crate::run::guard;
use liquid_core::model::{KString, Object, Scalar, Value};
use liquid_core::runtime::{GlobalFrame, RuntimeBuilder, SandboxedStackFrame, StackFrame};
use liquid_core::Runtime;
use serde_json::json;
use stateright::{Checker, Model, Property};
use std::collections::{BTreeSet, HashSet};
use std::hash::{Hash, Hasher};
use std::sync::atomic::{AtomicU64, Ordering};

const NAMES: [&str; 2] = ["a", "b"];
/// second path steps
const STEPS: [&str; 4] = ["a", "b", "k", "size"];
/// names probed at the root: NAMES + never-defined ones, among them the pseudo-members `size` and `first`
/// that the path finder answers one level down (no layer defines them, so no layer may resolve them)
const PROBES: [&str; 6] = ["a", "b", "k", "zz", "size", "first"];

#[derive(Clone, Copy, Debug, PartialEq, Eq, Hash, PartialOrd, Ord)]
pub enum AV {
    Absent,
    /// pushed scalar "s1"
    Pushed,
    /// pushed object {"k": 1}
    Obj,
    /// global assignment "g1" / "g2"
    Assigned(u8),
    /// caller data "d0"
    Data,
}

type Map = [AV; 2];

#[derive(Clone, Debug, PartialEq, Eq, Hash)]
pub enum Layer {
    Plain(Map),
    Sandbox(Map),
    Global(Map),
}

#[derive(Clone, Copy, Debug, PartialEq, Eq, Hash)]
pub enum Action {
    PushPlain(Map),
    PushSandbox(Map),
    PushGlobal,
    Pop,
    AssignGlobal(usize, u8),
    SetCounter(usize, i64),
}

#[derive(Clone, Debug, PartialEq, Eq, Hash)]
pub struct Abs {
    pub layers: Vec<Layer>,
    pub base_global: Map,
    pub counters: [Option<i64>; 2],
    pub ops: usize,
}

#[derive(Clone, Debug)]
pub struct St {
    pub abs: Abs,
    /// one history that reaches `abs` (not part of the state identity)
    pub history: Vec<Action>,
    /// outcome of replaying `history` on the real runtime types
    pub mismatch: Option<String>,
}

impl PartialEq for St {
    fn eq(&self, o: &Self) -> bool {
        self.abs == o.abs && self.mismatch.is_some() == o.mismatch.is_some()
    }
}
impl Eq for St {}
impl Hash for St {
    fn hash<H: Hasher>(&self, h: &mut H) {
        self.abs.hash(h);
        self.mismatch.is_some().hash(h);
    }
}

/// caller data handed to `RuntimeBuilder::set_globals`: only `b` is defined
const BASE_DATA: Map = [AV::Absent, AV::Data];

fn all_maps() -> Vec<Map> {
    let vals = [AV::Absent, AV::Pushed, AV::Obj];
    let mut v = Vec::new();
    for a in vals {
        for b in vals {
            v.push([a, b]);
        }
    }
    v
}

pub fn next_abs(s: &Abs, a: &Action) -> Abs {
    let mut n = s.clone();
    n.ops += 1;
    match a {
        Action::PushPlain(m) => n.layers.push(Layer::Plain(*m)),
        Action::PushSandbox(m) => n.layers.push(Layer::Sandbox(*m)),
        Action::PushGlobal => n.layers.push(Layer::Global([AV::Absent; 2])),
        Action::Pop => {
            n.layers.pop();
        }
        Action::AssignGlobal(k, v) => {
            // lands in the nearest enclosing global layer (sandboxes pass it on)
            let mut done = false;
            for l in n.layers.iter_mut().rev() {
                if let Layer::Global(m) = l {
                    m[*k] = AV::Assigned(*v);
                    done = true;
                    break;
                }
            }
            if !done {
                n.base_global[*k] = AV::Assigned(*v);
            }
        }
        Action::SetCounter(k, v) => n.counters[*k] = Some(*v),
    }
    n
}

fn name_idx(n: &str) -> Option<usize> {
    NAMES.iter().position(|x| *x == n)
}

#[derive(Clone, Debug, PartialEq)]
enum Found {
    Val(AV),
    Counter(i64),
    Missing,
}

/// the model's lookup: walk down from the top; a layer answers iff it defines the
/// first key; a sandbox stops the walk
fn model_root(s: &Abs, name: &str) -> Found {
    let Some(i) = name_idx(name) else { return Found::Missing };
    for l in s.layers.iter().rev() {
        match l {
            Layer::Plain(m) | Layer::Global(m) => {
                if m[i] != AV::Absent {
                    return Found::Val(m[i]);
                }
            }
            Layer::Sandbox(m) => {
                return if m[i] != AV::Absent { Found::Val(m[i]) } else { Found::Missing };
            }
        }
    }
    if s.base_global[i] != AV::Absent {
        return Found::Val(s.base_global[i]);
    }
    if BASE_DATA[i] != AV::Absent {
        return Found::Val(BASE_DATA[i]);
    }
    match s.counters[i] {
        Some(c) => Found::Counter(c),
        None => Found::Missing,
    }
}

fn av_text(v: AV) -> &'static str {
    match v {
        AV::Pushed => "s1",
        AV::Assigned(1) => "g1",
        AV::Assigned(2) => "g2",
        // value coincidences: 3 is the *integer* 1 (what a counter set to 1 holds), 4 is the text a pushed layer holds
        AV::Assigned(3) => "<int 1>",
        AV::Assigned(_) => "s1",
        AV::Data => "d0",
        _ => "",
    }
}

/// `Some(dump)` if the path resolves, `None` if it must fail, `Some("?")` if unspecified
fn model_get(s: &Abs, path: &[&str]) -> Option<String> {
    let root = model_root(s, path[0]);
    if path.len() == 1 {
        return match root {
            Found::Missing => None,
            Found::Counter(c) => Some(format!("i:{c}")),
            Found::Val(AV::Obj) => Some("{k=i:1}".into()),
            Found::Val(AV::Assigned(3)) => Some("i:1".into()),
            Found::Val(v) => Some(format!("s:{:?}", av_text(v))),
        };
    }
    match root {
        Found::Missing => None,
        Found::Counter(_) => {
            if path[1] == "size" {
                Some("?".into())
            } else {
                None
            }
        }
        Found::Val(AV::Obj) => match path[1] {
            "k" | "size" => Some("i:1".into()),
            _ => None,
        },
        Found::Val(AV::Assigned(3)) => {
            if path[1] == "size" {
                Some("?".into())
            } else {
                None
            }
        }
        Found::Val(v) => {
            if path[1] == "size" {
                Some(format!("i:{}", av_text(v).len()))
            } else {
                None
            }
        }
    }
}

fn model_roots(s: &Abs) -> BTreeSet<String> {
    NAMES.iter().filter(|n| model_root(s, n) != Found::Missing).map(|n| n.to_string()).collect()
}

/// every observation the plugin API offers, as text
fn model_observe(s: &Abs) -> Vec<String> {
    let mut o = Vec::new();
    for p in PROBES {
        o.push(format!("get[{p}]={:?}", model_get(s, &[p])));
        for st in STEPS {
            o.push(format!("get[{p}.{st}]={:?}", model_get(s, &[p, st])));
        }
    }
    o.push(format!("roots={:?}", model_roots(s)));
    for (i, n) in NAMES.iter().enumerate() {
        o.push(format!("index[{n}]={:?}", s.counters[i].map(|c| format!("i:{c}"))));
    }
    o
}

// ------------------------------------------------------------------ real runtime

fn real_object(m: &Map) -> Object {
    let mut o = Object::new();
    for (i, v) in m.iter().enumerate() {
        match v {
            AV::Absent => {}
            AV::Obj => {
                let mut inner = Object::new();
                inner.insert(KString::from_static("k"), Value::scalar(1i64));
                o.insert(KString::from_static(NAMES[i]), Value::Object(inner));
            }
            other => {
                o.insert(KString::from_static(NAMES[i]), Value::scalar(av_text(*other)));
            }
        }
    }
    o
}

fn real_observe(rt: &dyn Runtime) -> (Vec<String>, Vec<String>) {
    let mut o = Vec::new();
    let mut problems = Vec::new();
    let mut resolving: BTreeSet<String> = BTreeSet::new();
    let mut one = |label: String, path: Vec<Scalar>| {
        let g = rt.get(&path).ok().map(|v| crate::cfgs::dump_view(v.as_view()));
        let t = rt.try_get(&path).map(|v| crate::cfgs::dump_view(v.as_view()));
        if g != t {
            problems.push(format!("failing and optional lookup disagree on {label}: get={g:?} try_get={t:?}"));
        }
        o.push(format!("{label}={g:?}"));
        g.is_some()
    };
    for p in PROBES {
        if one(format!("get[{p}]"), vec![Scalar::new(p)]) {
            resolving.insert(p.to_string());
        }
        for st in STEPS {
            one(format!("get[{p}.{st}]"), vec![Scalar::new(p), Scalar::new(st)]);
        }
    }
    let roots: BTreeSet<String> = rt.roots().into_iter().map(|k| k.to_string()).collect();
    // the root listing is exactly the set of top-level names that resolve
    for r in &roots {
        if rt.get(&[Scalar::new(r.clone())]).is_err() {
            problems.push(format!("root name {r:?} is listed but does not resolve"));
        }
    }
    for r in &resolving {
        if !roots.contains(r) {
            problems.push(format!("name {r:?} resolves but is not listed by roots()"));
        }
    }
    o.push(format!("roots={roots:?}"));
    for n in NAMES {
        o.push(format!("index[{n}]={:?}", rt.get_index(n).map(|v| crate::cfgs::dump_view(v.as_view()))));
    }
    (o, problems)
}

enum Ret {
    Finished,
    Popped,
}

/// Replays `actions[*pos..]` with `rt` as the current top of the stack.  Frames
/// nest on the Rust call stack; at the end the top-of-stack is observed, and on
/// the way out every live layer reports the counters it sees.
fn replay(rt: &dyn Runtime, actions: &[Action], pos: &mut usize, out: &mut Option<(Vec<String>, Vec<String>)>, counters_seen: &mut Vec<Vec<String>>, inter: &mut Option<Vec<String>>) -> Ret {
    loop {
        // observing mode: every live top-of-stack is looked at before each step (lookups are reads: they must not
        // change what a later lookup answers)
        if let Some(problems) = inter.as_mut() {
            if *pos < actions.len() {
                problems.extend(real_observe(rt).1);
            }
        }
        if *pos == actions.len() {
            if out.is_none() {
                *out = Some(real_observe(rt));
            }
            counters_seen.push(NAMES.iter().map(|n| format!("{:?}", rt.get_index(n).map(|v| crate::cfgs::dump_view(v.as_view())))).collect());
            return Ret::Finished;
        }
        let a = actions[*pos];
        *pos += 1;
        let r = match a {
            Action::PushPlain(m) => {
                let data = real_object(&m);
                let frame = StackFrame::new(rt, &data);
                replay(&frame, actions, pos, out, counters_seen, inter)
            }
            Action::PushSandbox(m) => {
                let data = real_object(&m);
                let frame = SandboxedStackFrame::new(rt, &data);
                replay(&frame, actions, pos, out, counters_seen, inter)
            }
            Action::PushGlobal => {
                let frame = GlobalFrame::new(rt);
                replay(&frame, actions, pos, out, counters_seen, inter)
            }
            Action::Pop => return Ret::Popped,
            Action::AssignGlobal(k, v) => {
                let val = if v == 3 { Value::scalar(1i64) } else { Value::scalar(av_text(AV::Assigned(v))) };
                rt.set_global(KString::from_static(NAMES[k]), val);
                continue;
            }
            Action::SetCounter(k, v) => {
                rt.set_index(KString::from_static(NAMES[k]), Value::scalar(v));
                continue;
            }
        };
        match r {
            Ret::Finished => {
                counters_seen.push(NAMES.iter().map(|n| format!("{:?}", rt.get_index(n).map(|v| crate::cfgs::dump_view(v.as_view())))).collect());
                return Ret::Finished;
            }
            Ret::Popped => continue,
        }
    }
}

/// Histories up to this length are executed a second time with observations on every intermediate stack
/// (quick: 4, thorough: all).
pub static OBSERVED_MAX_LEN: std::sync::atomic::AtomicUsize = std::sync::atomic::AtomicUsize::new(usize::MAX);

/// Executes the history on the real types; `None` = conforms to the model.
pub fn conform(abs: &Abs, history: &[Action]) -> Option<String> {
    let r = guard(|| {
        let base = real_object(&BASE_DATA);
        let rt = RuntimeBuilder::new().set_globals(&base).build();
        let mut pos = 0;
        let mut out = None;
        let mut seen = Vec::new();
        replay(&rt, history, &mut pos, &mut out, &mut seen, &mut None);
        (out, seen)
    });
    let (out, seen) = match r {
        Err(pi) => return Some(pi.describe()),
        Ok(x) => x,
    };
    // the same history once more on fresh objects, this time looking at every intermediate stack on the way: the
    // final answers must be the same (an optional lookup that missed must not be remembered past a later write)
    if history.len() > 1 && history.len() <= OBSERVED_MAX_LEN.load(Ordering::Relaxed) {
        let r2 = guard(|| {
            let base = real_object(&BASE_DATA);
            let rt = RuntimeBuilder::new().set_globals(&base).build();
            let mut pos = 0;
            let mut out = None;
            let mut seen = Vec::new();
            let mut inter = Some(Vec::new());
            replay(&rt, history, &mut pos, &mut out, &mut seen, &mut inter);
            (out, inter.unwrap_or_default())
        });
        match r2 {
            Err(pi) => return Some(pi.describe()),
            Ok((out2, problems)) => {
                if let Some(p) = problems.first() {
                    return Some(format!("on an intermediate stack: {p}"));
                }
                if let (Some((o1, _)), Some((o2, p2))) = (&out, &out2) {
                    if let Some(p) = p2.first() {
                        return Some(format!("after intermediate lookups: {p}"));
                    }
                    if o1 != o2 {
                        let d = o1.iter().zip(o2.iter()).find(|(a, b)| a != b).map(|(a, b)| format!("{a} without, {b} with")).unwrap_or_default();
                        return Some(format!("lookups are not reads: the final answers differ when every intermediate stack was looked at first ({d})"));
                    }
                }
            }
        }
    }
    let Some((obs, problems)) = out else { return Some("replay did not reach the end of the history".into()) };
    if let Some(p) = problems.first() {
        return Some(p.clone());
    }
    if seen.windows(2).any(|w| w[0] != w[1]) {
        return Some(format!("counters differ between layers: {seen:?}"));
    }
    let want = model_observe(abs);
    for (w, g) in want.iter().zip(obs.iter()) {
        if w != g && !w.ends_with("=Some(\"?\")") {
            return Some(format!("model predicts {w}, real runtime shows {g}"));
        }
    }
    None
}

// ------------------------------------------------------------------ stateright model

pub struct StackModel {
    pub max_layers: usize,
    pub max_ops: usize,
    pub transitions: AtomicU64,
}

impl StackModel {
    pub fn enabled(&self, s: &Abs) -> Vec<Action> {
        let mut v = Vec::new();
        if s.ops >= self.max_ops {
            return v;
        }
        if s.layers.len() < self.max_layers {
            for m in all_maps() {
                v.push(Action::PushPlain(m));
            }
            for m in all_maps() {
                v.push(Action::PushSandbox(m));
            }
            v.push(Action::PushGlobal);
        }
        if !s.layers.is_empty() {
            v.push(Action::Pop);
        }
        for k in 0..2 {
            for val in [1u8, 2, 3, 4] {
                v.push(Action::AssignGlobal(k, val));
            }
        }
        for k in 0..2 {
            for val in [1i64, 2] {
                v.push(Action::SetCounter(k, val));
            }
        }
        v
    }
}

pub fn init_abs() -> Abs {
    Abs { layers: vec![], base_global: [AV::Absent; 2], counters: [None; 2], ops: 0 }
}

impl Model for StackModel {
    type State = St;
    type Action = Action;

    fn init_states(&self) -> Vec<St> {
        let abs = init_abs();
        let mismatch = conform(&abs, &[]);
        vec![St { abs, history: vec![], mismatch }]
    }

    fn actions(&self, state: &St, actions: &mut Vec<Action>) {
        if state.mismatch.is_some() {
            return;
        }
        actions.extend(self.enabled(&state.abs));
    }

    fn next_state(&self, last: &St, action: Action) -> Option<St> {
        self.transitions.fetch_add(1, Ordering::Relaxed);
        let abs = next_abs(&last.abs, &action);
        let mut history = last.history.clone();
        history.push(action);
        let mismatch = conform(&abs, &history);
        Some(St { abs, history, mismatch })
    }

    fn properties(&self) -> Vec<Property<Self>> {
        vec![Property::always("real runtime conforms to the stack-of-maps model", |_, s: &St| s.mismatch.is_none())]
    }
}

/// all operation sequences without deduplication: the set of abstract states they
/// reach must be what the model checker (which deduplicates on the abstraction) found
fn undeduplicated(model: &StackModel, depth: usize) -> (u64, HashSet<Abs>, Option<(Vec<Action>, String)>) {
    fn rec(model: &StackModel, s: &Abs, hist: &mut Vec<Action>, depth: usize, seqs: &mut u64, set: &mut HashSet<Abs>, bad: &mut Option<(Vec<Action>, String)>) {
        set.insert(s.clone());
        if hist.len() == depth || bad.is_some() {
            return;
        }
        for a in model.enabled(s) {
            let n = next_abs(s, &a);
            hist.push(a);
            *seqs += 1;
            // every *sequence* is replayed on the real types, not only one representative per abstract
            // state: behaviour that depends on the order of operations reaching one abstract state
            // (the hidden real state differs) cannot hide behind the deduplication
            if let Some(m) = conform(&n, hist) {
                *bad = Some((hist.clone(), m));
                hist.pop();
                return;
            }
            rec(model, &n, hist, depth, seqs, set, bad);
            hist.pop();
        }
    }
    // one worker per first action (the subtrees are independent)
    let root = init_abs();
    let firsts = model.enabled(&root);
    let results: Vec<(u64, HashSet<Abs>, Option<(Vec<Action>, String)>)> = std::thread::scope(|sc| {
        let handles: Vec<_> = firsts
            .iter()
            .map(|a| {
                let root = &root;
                sc.spawn(move || {
                    let mut seqs = 1;
                    let mut set = HashSet::new();
                    let mut bad = None;
                    let n = next_abs(root, a);
                    let mut hist = vec![a.clone()];
                    if let Some(m) = conform(&n, &hist) {
                        bad = Some((hist.clone(), m));
                    } else if depth >= 1 {
                        rec(model, &n, &mut hist, depth, &mut seqs, &mut set, &mut bad);
                    }
                    (seqs, set, bad)
                })
            })
            .collect();
        handles.into_iter().map(|h| h.join().expect("guard worker")).collect()
    });
    let mut seqs = 0;
    let mut set = HashSet::new();
    set.insert(root.clone());
    let mut bad: Option<(Vec<Action>, String)> = None;
    for (n, st, b) in results {
        seqs += n;
        set.extend(st);
        // keep the shortest counterexample
        if let Some(x) = b {
            if bad.as_ref().map(|y| x.0.len() < y.0.len()).unwrap_or(true) {
                bad = Some(x);
            }
        }
    }
    (seqs, set, bad)
}

const PROP: &str = "real runtime conforms to the stack-of-maps model";

fn summarize<C: Checker<StackModel>>(checker: C) -> (u64, u64, u64, usize, Option<St>) {
    let d = checker.discovery(PROP).map(|p| p.last_state().clone());
    (checker.unique_state_count() as u64, checker.state_count() as u64, checker.model().transitions.load(Ordering::Relaxed), checker.max_depth(), d)
}

pub fn run(tier: Tier) -> i32 {
    OBSERVED_MAX_LEN.store(if tier.thorough() { usize::MAX } else { 4 }, Ordering::Relaxed);
    let report = Report::new("C18", tier, "model_checking");
    let (max_layers, max_ops) = if tier.thorough() { (4, 6) } else { (3, 5) };
    report.set_rule("explicit-state model: state = stack of pushed layers (plain / sandboxed / global, each over all 9 maps of 2 names x {absent, scalar, object}) + the builder's global map + counters + operation count; 32 actions (push plain/sandbox x 9 maps, push global, pop, assign-global x 8 incl. two value coincidences - the integer a counter holds and the text a pushed layer holds -, set-counter x 4); every transition re-executes the whole history on the real RuntimeBuilder/StackFrame/SandboxedStackFrame/GlobalFrame types and compares get/try_get of every path of length 1..2 over {a,b,k,zz,size,first} x {a,b,k,size}, roots() and get_index with the model; every history (quick: of up to 4 operations) is executed a second time with the same observations made on every intermediate stack (final answers must not change); states = unique abstract states, transitions = successor computations (each replayed), traces_validated = replays");
    report.assume("state identity is the abstract state; sound because every transition proves the real observations are a function of it; guarded by an un-deduplicated enumeration of all operation sequences and by running BFS and DFS and comparing unique-state counts");
    let threads = crate::run::threads();
    let mut counts = Vec::new();
    for mode in ["bfs", "dfs"] {
        let model = StackModel { max_layers, max_ops, transitions: AtomicU64::new(0) };
        let (unique, total, transitions, max_depth, discovery) = if mode == "bfs" { summarize(model.checker().threads(threads).spawn_bfs().join()) } else { summarize(model.checker().threads(threads).spawn_dfs().join()) };
        counts.push(unique);
        report.evals(transitions);
        if mode == "bfs" {
            report.states.store(unique, Ordering::Relaxed);
            report.transitions.store(transitions, Ordering::Relaxed);
            report.traces.store(transitions, Ordering::Relaxed);
            report.nontrivial.fetch_add(unique, Ordering::Relaxed);
        }
        report.family(FamilyStat { name: format!("stateright {mode} / layers<={max_layers} / ops<={max_ops}"), cases: total, nontrivial: unique, skipped: 0, note: format!("unique states={unique} generated={total} transitions replayed on the real runtime={transitions} max_depth={max_depth}") });
        if let Some(last) = discovery {
            let detail = last.mismatch.clone().unwrap_or_default();
            // classify by the kind of the last action and the clause
            let class = match last.history.last() {
                Some(Action::PushPlain(_)) => "push-plain",
                Some(Action::PushSandbox(_)) => "push-sandbox",
                Some(Action::PushGlobal) => "push-global",
                Some(Action::Pop) => "pop",
                Some(Action::AssignGlobal(..)) => "assign-global",
                Some(Action::SetCounter(..)) => "set-counter",
                None => "initial",
            };
            let clause = if detail.contains("disagree") { "get-vs-try_get" } else if detail.contains("root") || detail.contains("roots") { "roots" } else if detail.contains("counters") || detail.contains("index[") { "counters" } else if detail.contains("panicked") { "panic" } else { "lookup" };
            report.violation(
                &format!("C18|{clause}|after-{class}"),
                last.history.len() as u64,
                json!({"kind":"stack-history","history":last.history.iter().map(|a| format!("{a:?}")).collect::<Vec<_>>(),"abstract_state":format!("{:?}", last.abs)}),
                format!("after {:?}: {detail}", last.history),
            );
            break;
        }
    }
    if report.violation_count() == 0 && counts.len() == 2 && counts[0] != counts[1] {
        eprintln!("[C18] machinery failure: BFS and DFS disagree on the number of unique states: {counts:?}");
        return 2;
    }
    // un-deduplicated guard
    let gdepth = if tier.thorough() { 5 } else { 4 };
    let model = StackModel { max_layers, max_ops: gdepth, transitions: AtomicU64::new(0) };
    let (seqs, set, bad) = undeduplicated(&model, gdepth);
    if let Some((hist, detail)) = bad {
        report.violation(
            "C18|order-dependent|un-deduplicated-sequence",
            hist.len() as u64,
            json!({"kind":"stack-history","history":hist.iter().map(|a| format!("{a:?}")).collect::<Vec<_>>()}),
            format!("after {hist:?}: {detail} (found by replaying every operation sequence, not one representative per abstract state)"),
        );
    }
    let (unique, _, _, _, disc) = summarize(model.checker().threads(threads).spawn_bfs().join());
    report.evals(seqs);
    if disc.is_none() && unique != set.len() as u64 {
        eprintln!("[C18] machinery failure: abstraction guard: {seqs} un-deduplicated sequences reach {} abstract states but the checker found {unique}", set.len());
        return 2;
    }
    for a in &set {
        report.outcome(&model_observe(a));
    }
    report.family(FamilyStat { name: format!("un-deduplicated sequences / depth<={gdepth}"), cases: seqs, nontrivial: set.len() as u64, skipped: 0, note: format!("{seqs} operation sequences reach {} abstract states = the checker's unique-state count at the same bound", set.len()) });
    report.sample(json!({"history": ["PushPlain([Pushed, Absent])", "PushSandbox([Absent, Obj])", "AssignGlobal(0, 1)", "Pop"], "observed": "get/try_get of a, b, k, zz, size, first and x.{a,b,k,size}; roots(); get_index(a), get_index(b)"}));
    report.sample(json!({"model_observation_of_initial_state": model_observe(&init_abs())}));
    report.finish()
}
