//! C03 — literal text preserved; trim markers, raw and comment do exactly their job.

use crate::cfgs::{self, Config, Outcome};
use crate::report::{FamilyStat, Report, Tier};
use crate::run::{decode, par_range, product, seq_count, seq_decode};
use serde_json::json;
use std::sync::atomic::{AtomicU64, Ordering};

const WS: [char; 4] = [' ', '\t', '\r', '\n'];

fn ws_runs(thorough: bool) -> Vec<String> {
    let mut v = vec![String::new()];
    for a in WS {
        v.push(a.to_string());
    }
    for a in WS {
        for b in WS {
            v.push(format!("{a}{b}"));
        }
    }
    // representative longer runs
    v.extend(["\r\n ", " \r\n", "\t\t\t", "  \n\t", "\r\n\r\n", "\n \n "].iter().map(|s| s.to_string()));
    if thorough {
        for a in WS {
            for b in WS {
                for c in WS {
                    v.push(format!("{a}{b}{c}"));
                }
            }
        }
    }
    v
}

// U+00A0 (no-break space) is *text*: the grammar's WHITESPACE and the statement's list are space, tab and
// line breaks, so a trim marker touching it must leave it alone (catches `str::trim*`-style trimming).
const CORES: [&str; 13] = ["", "a", "é", "{", "}", "%", "\"", "'", "a{", "}%", "%}", "\u{a0}", "\u{a0}b\u{a0}"];

fn is_ws(c: char) -> bool {
    WS.contains(&c)
}

fn trim_end_ws(s: &str) -> &str {
    s.trim_end_matches(is_ws)
}
fn trim_start_ws(s: &str) -> &str {
    s.trim_start_matches(is_ws)
}

#[derive(Clone, Copy)]
struct Sides {
    l: bool,
    r: bool,
}

fn sp(k: u64) -> &'static str {
    match k {
        0 => "",
        1 => " ",
        _ => "   ",
    }
}

/// markup item kinds: 0 output, 1 tag (assign), 2 block open (if), 3 block close (endif)
fn markup(kind: u64, s: Sides, inner: u64) -> (String, &'static str) {
    let (o, c, body, out) = match kind {
        0 => ("{{", "}}", "7", "7"),
        1 => ("{%", "%}", "assign v = 1", ""),
        2 => ("{%", "%}", "if true", ""),
        _ => ("{%", "%}", "endif", ""),
    };
    let mut inner_sp = sp(inner);
    if kind != 0 && inner_sp.is_empty() {
        // `{%assign` is fine, but keep at least the grammar-required separation inside
        inner_sp = "";
    }
    (
        format!("{o}{}{inner_sp}{body}{inner_sp}{}{c}", if s.l { "-" } else { "" }, if s.r { "-" } else { "" }),
        out,
    )
}

/// Would the concatenation `text + markup` accidentally spell a delimiter?
fn spells_delim(text: &str) -> bool {
    text.ends_with('{') || text.contains("{{") || text.contains("{%")
}

fn segments(report: &Report, thorough: bool) {
    let parser = cfgs::parser(Config::Stdlib);
    let runs = ws_runs(thorough);
    let r = runs.len() as u64;
    let c = CORES.len() as u64;
    // template: T0 M1 T1 where T = L core R; M1 = output | tag with 2 sides, inner spaces
    // radices: R0, core1, L1, kind(2), sideL, sideR, inner(3), core0, L0, R1
    let rad = [r, c, r, 2, 2, 2, 3, 4, 3, 3];
    let total = product(&rad);
    let name = "trim/one-markup".to_string();
    let nontriv = AtomicU64::new(0);
    let skipped = AtomicU64::new(0);
    let build = |i: u64| -> Option<(String, String)> {
        let d = decode(i, &rad);
        let few = ["", " ", "\n"];
        let t0 = format!("{}{}{}", few[d[8] as usize], ["x", "é", "}", "x\u{a0}"][d[7] as usize], runs[d[0] as usize]);
        let t1 = format!("{}{}{}", runs[d[2] as usize], CORES[d[1] as usize], few[d[9] as usize]);
        if spells_delim(&t0) || spells_delim(&t1) {
            return None;
        }
        let sides = Sides { l: d[4] == 1, r: d[5] == 1 };
        let (m, out) = markup(d[3], sides, d[6]);
        let text = format!("{t0}{m}{t1}");
        let e0 = if sides.l { trim_end_ws(&t0) } else { &t0 };
        let e1 = if sides.r { trim_start_ws(&t1) } else { &t1 };
        Some((text, format!("{e0}{out}{e1}")))
    };
    run_family(report, &parser, &name, total, &build, &nontriv, &skipped, "trim");
    report.family(FamilyStat { name, cases: total, nontrivial: nontriv.load(Ordering::Relaxed), skipped: skipped.load(Ordering::Relaxed), note: format!("whitespace runs={} cores={} markup=output|tag, both sides with/without '-', inner spaces 0/1/3", runs.len(), CORES.len()) });

    // block: T0 {% if true %} T1 {% endif %} T2 with four sides
    let runs2: Vec<String> = runs.iter().take(if thorough { 21 } else { 5 }).cloned().collect();
    let r2 = runs2.len() as u64;
    let rad = [r2, r2, r2, r2, 2, 2, 2, 2, 3, c];
    let total = product(&rad);
    let name = "trim/block-four-sides".to_string();
    let nontriv = AtomicU64::new(0);
    let skipped = AtomicU64::new(0);
    let build = |i: u64| -> Option<(String, String)> {
        let d = decode(i, &rad);
        let t0 = format!("x{}", runs2[d[0] as usize]);
        let core = CORES[d[9] as usize];
        let t1 = format!("{}{}{}", runs2[d[1] as usize], core, runs2[d[2] as usize]);
        let t2 = format!("{}y", runs2[d[3] as usize]);
        if spells_delim(&t1) {
            return None;
        }
        let s1 = Sides { l: d[4] == 1, r: d[5] == 1 };
        let s2 = Sides { l: d[6] == 1, r: d[7] == 1 };
        let (m1, _) = markup(2, s1, d[8]);
        let (m2, _) = markup(3, s2, d[8]);
        let text = format!("{t0}{m1}{t1}{m2}{t2}");
        let e0 = if s1.l { trim_end_ws(&t0) } else { &t0 };
        let mut e1: &str = &t1;
        if s1.r {
            e1 = trim_start_ws(e1);
        }
        if s2.l {
            e1 = trim_end_ws(e1);
        }
        let e2 = if s2.r { trim_start_ws(&t2) } else { &t2 };
        Some((text, format!("{e0}{e1}{e2}")))
    };
    run_family(report, &parser, &name, total, &build, &nontriv, &skipped, "trim-block");
    report.family(FamilyStat { name, cases: total, nontrivial: nontriv.load(Ordering::Relaxed), skipped: skipped.load(Ordering::Relaxed), note: "if..endif with a text body, four delimiter sides independently trimmed".into() });


    // whole blocks as the markup item: the outer sides of comment / raw / capture / if-false blocks trim
    // their neighbours like any tag, and (for raw) the inner sides trim the body
    let rad = [r2, r2, 2, 2, 2, 2, 5, c];
    let total = product(&rad);
    let name = "trim/around-and-inside-blocks".to_string();
    let nontriv = AtomicU64::new(0);
    let skipped = AtomicU64::new(0);
    let build = |i: u64| -> Option<(String, String)> {
        let d = decode(i, &rad);
        let (wl, wr) = (&runs2[d[0] as usize], &runs2[d[1] as usize]);
        let (ol, or_, cl, cr) = (d[2] == 1, d[3] == 1, d[4] == 1, d[5] == 1);
        let core = CORES[d[7] as usize];
        if spells_delim(core) || core.contains('{') || core.contains('%') {
            return None;
        }
        let dash = |b: bool| if b { "-" } else { "" };
        // body = ws + core + ws so that the inner sides have something to trim
        let body = format!("{wr}{core}{wl}");
        let (open, close, out): (&str, &str, String) = match d[6] {
            0 => ("comment", "endcomment", String::new()),
            1 => ("raw", "endraw", {
                let mut e: &str = &body;
                if or_ { e = trim_start_ws(e); }
                if cl { e = trim_end_ws(e); }
                e.to_string()
            }),
            2 => ("capture cc", "endcapture", String::new()),
            3 => ("if false", "endif", String::new()),
            _ => ("unless false", "endunless", {
                let mut e: &str = &body;
                if or_ { e = trim_start_ws(e); }
                if cl { e = trim_end_ws(e); }
                e.to_string()
            }),
        };
        let text = format!("x{wl}{{%{} {open} {}%}}{body}{{%{} {close} {}%}}{wr}y", dash(ol), dash(or_), dash(cl), dash(cr));
        let e0 = if ol { "x".to_string() } else { format!("x{wl}") };
        let e2 = if cr { "y".to_string() } else { format!("{wr}y") };
        Some((text, format!("{e0}{out}{e2}")))
    };
    run_family(report, &parser, &name, total, &build, &nontriv, &skipped, "trim-blocks");
    report.family(FamilyStat { name, cases: total, nontrivial: nontriv.load(Ordering::Relaxed), skipped: skipped.load(Ordering::Relaxed), note: "comment / raw / capture / if false / unless false as the markup item: four delimiter sides independently trimmed, whitespace runs outside and inside".into() });

    // two markups: T0 M1 T1 M2 T2 (adjacent markup with shared whitespace)
    let rad = [r2, 2, 2, 2, 2, 2, 2, 3];
    let total = product(&rad);
    let name = "trim/two-markups".to_string();
    let nontriv = AtomicU64::new(0);
    let skipped = AtomicU64::new(0);
    let build = |i: u64| -> Option<(String, String)> {
        let d = decode(i, &rad);
        let t1 = &runs2[d[0] as usize];
        let s1 = Sides { l: d[3] == 1, r: d[4] == 1 };
        let s2 = Sides { l: d[5] == 1, r: d[6] == 1 };
        let (m1, o1) = markup(d[1], s1, d[7]);
        let (m2, o2) = markup(d[2], s2, d[7]);
        let text = format!("a {m1}{t1}{m2} b");
        let e0 = if s1.l { "a" } else { "a " };
        let e1 = if s1.r || s2.l { "" } else { t1.as_str() };
        let e2 = if s2.r { "b" } else { " b" };
        Some((text, format!("{e0}{o1}{e1}{o2}{e2}")))
    };
    run_family(report, &parser, &name, total, &build, &nontriv, &skipped, "trim-two");
    report.family(FamilyStat { name, cases: total, nontrivial: nontriv.load(Ordering::Relaxed), skipped: skipped.load(Ordering::Relaxed), note: "a whitespace-only segment between two markups, trimmed from either side".into() });
}

#[allow(clippy::too_many_arguments)]
fn run_family(
    report: &Report,
    parser: &liquid::Parser,
    name: &str,
    total: u64,
    build: &(dyn Fn(u64) -> Option<(String, String)> + Sync),
    nontriv: &AtomicU64,
    skipped: &AtomicU64,
    class: &str,
) {
    let globals = liquid::Object::new();
    par_range(
        report,
        name,
        total,
        |i| {
            let Some((text, expected)) = build(i) else {
                skipped.fetch_add(1, Ordering::Relaxed);
                return;
            };
            report.eval();
            let (actual, _) = cfgs::run_case(parser, &text, &globals);
            let w = || json!({"kind":"render","template":text,"data":{},"partials":[],"expected":expected,"actual":actual.to_json()});
            match &actual {
                Outcome::Ok(s) if *s == expected => {
                    if text != expected {
                        nontriv.fetch_add(1, Ordering::Relaxed);
                    }
                    if i % 101 == 0 {
                        report.outcome(s);
                    }
                }
                Outcome::Panic(m) => report.violation(&format!("C03|{class}|panic|{}", crate::report::norm_msg(m)), i, w(), m.clone()),
                Outcome::Ok(s) => {
                    let tab = if text.contains('\t') { "with-tab" } else { "no-tab" };
                    report.violation(&format!("C03|{class}|output-differs|{tab}"), i, w(), format!("template {text:?}: expected {expected:?} got {s:?}"))
                }
                other => {
                    let tab = if text.contains('\t') { "with-tab" } else { "no-tab" };
                    report.violation(&format!("C03|{class}|rejected|{tab}"), i, w(), format!("template {text:?}: expected {expected:?} got {}", other.short()))
                }
            }
        },
        |i| json!({"kind":"render","template":build(i).map(|b| b.0),"data":{},"partials":[]}),
    );
    report.nontrivial.fetch_add(nontriv.load(Ordering::Relaxed), Ordering::Relaxed);
    if let Some((t, e)) = build(total / 2 + 3) {
        report.sample(json!({"family": name, "template": t, "expected": e}));
    }
}

fn markup_free(report: &Report, k: u32) {
    let parser = cfgs::parser(Config::Stdlib);
    let alpha = ["a", "é", "👍", "e\u{301}", "{", "}", "%", "\"", "'", " ", "\t", "\r", "\n", "-", "|", "}}", "%}", "-%}", "{-", "\u{a0}", "\u{2028}", "\0", "\u{feff}"];
    let total = seq_count(alpha.len() as u64, k);
    let name = format!("markup-free/k<={k}");
    let nontriv = AtomicU64::new(0);
    let skipped = AtomicU64::new(0);
    let build = |i: u64| -> Option<(String, String)> {
        let s: String = seq_decode(i, alpha.len() as u64, k).iter().map(|t| alpha[*t as usize]).collect();
        if s.contains("{{") || s.contains("{%") {
            return None;
        }
        Some((s.clone(), s))
    };
    run_family(report, &parser, &name, total, &build, &nontriv, &skipped, "markup-free");
    report.nontrivial.fetch_add(total - skipped.load(Ordering::Relaxed) - nontriv.load(Ordering::Relaxed), Ordering::Relaxed);
    report.family(FamilyStat { name, cases: total, nontrivial: total - skipped.load(Ordering::Relaxed), skipped: skipped.load(Ordering::Relaxed), note: format!("all sequences over a {}-token text alphabet that do not spell an opening delimiter must render to themselves", alpha.len()) });
}

fn raw_blocks(report: &Report, k: u32) {
    let parser = cfgs::parser(Config::Stdlib);
    let items = [
        "a", " ", "\n", "\t", "é", "{", "}", "%", "{{ x }}", "{{ x", "x }}", "{% if y %}", "{% endif %}", "{% if", "%}", "{% raw %}", "{% endraw x %}", "{%- assign q = 1 -%}", "{{- x -}}", "{% comment %}", "{% endcomment %}", "{{ 'a' | upcase }}", "{{ !! }}", "'", "\"", "\u{a0}",
    ];
    // radices: body sequence, open side r trim, close side l trim
    let seqs = seq_count(items.len() as u64, k);
    let total = seqs * 4;
    let name = format!("raw/k<={k}");
    let nontriv = AtomicU64::new(0);
    let skipped = AtomicU64::new(0);
    let build = |i: u64| -> Option<(String, String)> {
        let body: String = seq_decode(i % seqs, items.len() as u64, k).iter().map(|t| items[*t as usize]).collect();
        let (tr, tl) = ((i / seqs) & 1 == 1, (i / seqs) & 2 == 2);
        // a quote can hide `{% endraw %}` inside a syntactically complete output tag: unspecified
        if body.contains("{{") && (body.contains('\'') || body.contains('"')) && !body.contains("'a'") {
            return None;
        }
        if body.ends_with('{') {
            return None;
        }
        // whitespace between an inner `-%}` / `-}}` and `{%- endraw`: claimed by both tags
        let te = body.trim_end_matches([' ', '\n', '\r', '\t']);
        if tl && te.len() != body.len() && (te.ends_with("-%}") || te.ends_with("-}}")) {
            return None;
        }
        let text = format!("<{{% raw {}%}}{body}{{%{} endraw %}}>", if tr { "-" } else { "" }, if tl { "-" } else { "" });
        let mut e: &str = &body;
        if tr {
            e = e.trim_start_matches([' ', '\n', '\r', '\t']);
        }
        if tl {
            e = e.trim_end_matches([' ', '\n', '\r', '\t']);
        }
        Some((text, format!("<{e}>")))
    };
    run_family(report, &parser, &name, total, &build, &nontriv, &skipped, "raw");
    report.family(FamilyStat { name, cases: total, nontrivial: nontriv.load(Ordering::Relaxed), skipped: skipped.load(Ordering::Relaxed), note: format!("bodies of <= {k} items from {} (text, look-alike tags/outputs, unterminated markup, nested raw, `endraw x`), raw/endraw inner sides trimmed or not", items.len()) });
}

fn comments(report: &Report, k: u32) {
    let parser = cfgs::parser(Config::Stdlib);
    let items = [
        "text", " ", "\n", "é{}%", "{{ x }}", "{{ !! }}", "{{ undefined | nofilter }}", "{% assign v = 'changed' %}", "{% increment c %}", "{% decrement c %}",
        "{% cycle 'a', 'b' %}", "{% capture v %}cap{% endcapture %}", "{% if true %}{% assign v = 'changed' %}{% endif %}", "{% comment %}inner{% endcomment %}",
        "{% for i in (1..2) %}{% increment c %}{% endfor %}", "{% raw %}{% endcomment %}{% endraw %}", "{%- assign v = 2 -%}", "{{ 'x' }",
    ];
    let seqs = seq_count(items.len() as u64, k);
    let name = format!("comment/k<={k}");
    let nontriv = AtomicU64::new(0);
    let skipped = AtomicU64::new(0);
    let build = |i: u64| -> Option<(String, String)> {
        let body: String = seq_decode(i, items.len() as u64, k).iter().map(|t| items[*t as usize]).collect();
        // probes after the comment: binding, counter and cycle position unchanged
        let text = format!("<{{% comment %}}{body}{{% endcomment %}}>{{% if v %}}{{{{ v }}}}{{% else %}}-{{% endif %}}|{{% increment c %}}|{{% cycle 'a', 'b' %}}");
        Some((text, "<>-|0|a".to_string()))
    };
    run_family(report, &parser, &name, seqs, &build, &nontriv, &skipped, "comment");
    report.family(FamilyStat { name, cases: seqs, nontrivial: nontriv.load(Ordering::Relaxed), skipped: 0, note: format!("bodies of <= {k} items from {} (text, invalid outputs, programs with side effects, nested comments); probes show no binding/counter/cycle change", items.len()) });
}

pub fn run(tier: Tier) -> i32 {
    let report = Report::new("C03", tier, "exploration");
    report.set_rule("complete products of text segments (whitespace runs over space/tab/CR/LF x cores with stray delimiters and quotes) around output/tag/block markup with every trim-marker side combination and 0/1/3 inner spaces; all markup-free token sequences; all raw and comment bodies up to k items; distinct by construction; non-trivial = predicted output differs from the template text (something had to be trimmed, evaluated or dropped)");
    report.assume("whitespace = space, tab, CR, LF (the statement's list); combinations whose concatenation spells an opening delimiter belong to C01 and are skipped and counted");
    let t = tier.thorough();
    segments(&report, t);
    markup_free(&report, if t { 5 } else { 4 });
    raw_blocks(&report, if t { 4 } else { 3 });
    comments(&report, if t { 4 } else { 3 });
    report.finish()
}
