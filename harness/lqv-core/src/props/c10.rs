//! C10 — a failing output sink produces an error and a clean prefix, never a panic.
//! Fault enumeration: every write call of every generated program's run.

use crate::ast::*;
use crate::cfgs::{self, Config, Policy};
use crate::progen::{Grammar, Wrap};
use crate::report::{FamilyStat, Report, Tier};
use crate::run::{guard, par_range};
use crate::val::V;
use serde_json::json;
use std::io::{self, Write};
use std::sync::atomic::{AtomicU64, Ordering};

#[derive(Clone, Copy, Debug, PartialEq)]
pub enum Fault {
    None,
    /// k-th call fails
    FailAt(usize),
    /// k-th call accepts n bytes (n < len), the following call fails
    ShortThenFail(usize, usize),
    /// k-th call reports ErrorKind::Interrupted once
    InterruptedOnce(usize),
    /// never fails; the k-th call accepts only n bytes (n >= 1), every other call everything
    ShortOnce(usize, usize),
    /// never fails; every call accepts at most n bytes
    Chunked(usize),
}

pub struct Sink {
    pub fault: Fault,
    pub calls: usize,
    pub accepted: Vec<u8>,
    /// lengths of the buffers offered to each call
    pub offered: Vec<usize>,
    pub failed_at: Option<usize>,
    pub calls_after_failure: usize,
    armed_fail_next: bool,
    interrupted_done: bool,
}

impl Sink {
    pub fn new(fault: Fault) -> Sink {
        Sink { fault, calls: 0, accepted: Vec::new(), offered: Vec::new(), failed_at: None, calls_after_failure: 0, armed_fail_next: false, interrupted_done: false }
    }
}

impl Write for Sink {
    fn write(&mut self, buf: &[u8]) -> io::Result<usize> {
        if self.failed_at.is_some() {
            self.calls_after_failure += 1;
            return Err(io::Error::new(io::ErrorKind::Other, "sink already failed"));
        }
        self.calls += 1;
        self.offered.push(buf.len());
        if self.armed_fail_next {
            self.failed_at = Some(self.calls);
            return Err(io::Error::new(io::ErrorKind::Other, "injected failure after short write"));
        }
        match self.fault {
            Fault::FailAt(k) if k == self.calls => {
                self.failed_at = Some(self.calls);
                Err(io::Error::new(io::ErrorKind::Other, "injected failure"))
            }
            Fault::ShortThenFail(k, n) if k == self.calls => {
                let n = n.min(buf.len());
                if n == 0 {
                    // Ok(0) makes write_all give up with WriteZero: that is the failure
                    self.failed_at = Some(self.calls);
                    return Ok(0);
                }
                self.accepted.extend_from_slice(&buf[..n]);
                self.armed_fail_next = true;
                Ok(n)
            }
            Fault::InterruptedOnce(k) if k == self.calls && !self.interrupted_done => {
                self.interrupted_done = true;
                // the retried call must not be counted as a new position
                self.calls -= 1;
                self.offered.pop();
                Err(io::Error::new(io::ErrorKind::Interrupted, "injected EINTR"))
            }
            Fault::ShortOnce(k, n) if k == self.calls && !self.interrupted_done => {
                self.interrupted_done = true;
                let n = n.max(1).min(buf.len());
                self.accepted.extend_from_slice(&buf[..n]);
                Ok(n)
            }
            Fault::Chunked(n) => {
                let n = n.max(1).min(buf.len());
                self.accepted.extend_from_slice(&buf[..n]);
                Ok(n)
            }
            _ => {
                self.accepted.extend_from_slice(buf);
                Ok(buf.len())
            }
        }
    }
    fn flush(&mut self) -> io::Result<()> {
        Ok(())
    }
}


pub struct Counters {
    pub fault_runs: AtomicU64,
    pub positions: AtomicU64,
    pub nontriv: AtomicU64,
}

/// One (template, data) pair: the fault-free streaming run, the buffering render, the never-failing
/// chunked sinks, and then every fault at every write call of the fault-free run.
#[allow(clippy::too_many_arguments)]
fn enumerate_faults(report: &Report, c: &Counters, i: u64, textp: &str, tmpl: &liquid::Template, d: &V, global: &liquid::Object, partials: &[(String, String)], all_offsets: bool) {
        let w = |fault: Fault| json!({"kind":"fault","template":textp,"data":d.to_json(),"partials":partials,"fault":format!("{fault:?}")});
        // fault-free streaming run
        let mut sink = Sink::new(Fault::None);
        let r = guard(|| tmpl.render_to(&mut sink, global).map_err(|e| e.to_string()));
        report.eval();
        let free_ok = match r {
            Err(pi) => {
                report.violation(&format!("C10|{}", pi.sig()), i, w(Fault::None), pi.describe());
                return;
            }
            Ok(r) => r.is_ok(),
        };
        let b = sink.accepted.clone();
        let offered = sink.offered.clone();
        let wcalls = sink.calls;
        if std::str::from_utf8(&b).is_err() {
            report.violation("C10|streamed-bytes-not-utf8", i, w(Fault::None), "bytes written are not UTF-8".into());
        }
        // buffering render must agree with the stream
        let rs = guard(|| tmpl.render(global).map_err(|e| e.to_string()));
        match rs {
            Ok(Ok(s)) => {
                if !free_ok || s.as_bytes() != b.as_slice() {
                    report.violation("C10|stream-differs-from-buffered-render", i, w(Fault::None), format!("render() = {s:?}, streamed = {:?} (ok={free_ok})", String::from_utf8_lossy(&b)));
                }
            }
            Ok(Err(_)) => {
                if free_ok {
                    report.violation("C10|stream-ok-but-buffered-render-fails", i, w(Fault::None), "render() failed while render_to succeeded".into());
                }
            }
            Err(pi) => report.violation(&format!("C10|{}", pi.sig()), i, w(Fault::None), pi.describe()),
        }
        if wcalls > 0 {
            c.nontriv.fetch_add(1, Ordering::Relaxed);
        }
        if i % 13 == 0 {
            report.outcome(&(b.clone(), free_ok));
        }
        c.positions.fetch_add(wcalls as u64, Ordering::Relaxed);
        // never-failing sinks that accept at most n bytes per call
        if wcalls > 0 {
            for n in [1usize, 2, 3] {
                report.eval();
                c.fault_runs.fetch_add(1, Ordering::Relaxed);
                let f = Fault::Chunked(n);
                let mut s = Sink::new(f);
                match guard(|| tmpl.render_to(&mut s, global).map_err(|e| e.to_string())) {
                    Err(pi) => report.violation(&format!("C10|{}", pi.sig()), i, w(f), pi.describe()),
                    Ok(r) => {
                        if r.is_ok() != free_ok || s.accepted != b {
                            report.violation("C10|chunked-sink-differs-from-buffered-render", i, w(f), format!("a sink that never fails but accepts <= {n} bytes per call: result ok={} (fault-free ok={free_ok}); bytes {:?} vs {:?}", r.is_ok(), String::from_utf8_lossy(&s.accepted), String::from_utf8_lossy(&b)));
                        }
                    }
                }
            }
        }
        // every fault position
        let mut prefix_len = 0usize;
        for k in 1..=wcalls {
            let len_k = offered[k - 1];
            let mut faults = vec![Fault::FailAt(k), Fault::InterruptedOnce(k), Fault::ShortThenFail(k, 0)];
            if all_offsets {
                // every byte offset of the offered buffer, including those inside a character
                for n in 1..len_k {
                    faults.push(Fault::ShortThenFail(k, n));
                    faults.push(Fault::ShortOnce(k, n));
                }
            } else if len_k > 1 {
                faults.push(Fault::ShortOnce(k, 1));
                faults.push(Fault::ShortThenFail(k, 1));
                if len_k > 2 {
                    faults.push(Fault::ShortThenFail(k, len_k - 1));
                }
            }
            for f in faults {
                report.eval();
                c.fault_runs.fetch_add(1, Ordering::Relaxed);
                let mut s = Sink::new(f);
                let r = guard(|| tmpl.render_to(&mut s, global).map_err(|e| e.to_string()));
                let r = match r {
                    Err(pi) => {
                        report.violation(&format!("C10|{}", pi.sig()), i, w(f), pi.describe());
                        continue;
                    }
                    Ok(r) => r,
                };
                let kind = match f {
                    Fault::FailAt(_) => "fail-at",
                    Fault::ShortThenFail(..) => "short-then-fail",
                    Fault::InterruptedOnce(_) => "interrupted-once",
                    Fault::ShortOnce(..) => "short-once",
                    Fault::Chunked(_) => "chunked",
                    Fault::None => "none",
                };
                match f {
                    Fault::InterruptedOnce(_) => {
                        if r.is_ok() != free_ok || s.accepted != b {
                            report.violation("C10|interrupted-write-not-retried", i, w(f), format!("result ok={} (fault-free ok={free_ok}); bytes {:?} vs {:?}", r.is_ok(), String::from_utf8_lossy(&s.accepted), String::from_utf8_lossy(&b)));
                        }
                    }
                    Fault::ShortOnce(..) => {
                        if r.is_ok() != free_ok || s.accepted != b {
                            report.violation("C10|short-write-not-completed", i, w(f), format!("a sink that never fails but accepts a short count once: result ok={} (fault-free ok={free_ok}); bytes {:?} vs {:?}", r.is_ok(), String::from_utf8_lossy(&s.accepted), String::from_utf8_lossy(&b)));
                        }
                    }
                    _ => {
                        if r.is_ok() {
                            report.violation(&format!("C10|sink-failure-swallowed|{kind}"), i, w(f), "render_to returned Ok although the sink failed".into());
                        }
                        if s.calls_after_failure > 0 {
                            report.violation(&format!("C10|write-after-failure|{kind}"), i, w(f), format!("{} write call(s) after the failing one", s.calls_after_failure));
                        }
                        let want_len = match f {
                            Fault::ShortThenFail(_, n) => prefix_len + n.min(len_k),
                            _ => prefix_len,
                        };
                        if s.accepted.as_slice() != &b[..want_len.min(b.len())] || want_len > b.len() {
                            report.violation(&format!("C10|accepted-bytes-not-a-prefix|{kind}"), i, w(f), format!("accepted {:?}, fault-free output {:?}", String::from_utf8_lossy(&s.accepted), String::from_utf8_lossy(&b)));
                        }
                    }
                }
            }
            prefix_len += len_k;
        }
}

fn grammar(max_n: usize) -> Grammar {
    let leaves = vec![
        text("t€"),
        Stmt::Out(Expr::var("x")),
        Stmt::Out(Expr::s("lit")),
        Stmt::Out(Expr::var("arr")),
        Stmt::Raw("{{r}}".into()),
        Stmt::Cycle(None, vec![Expr::s("a"), Expr::s("b")]),
        Stmt::Incr("n".into()),
        Stmt::Decr("n".into()),
        Stmt::Include { name: Expr::s("p"), args: vec![] },
        Stmt::Render { name: Expr::s("p"), form: RenderForm::Plain, args: vec![("x".into(), Expr::s("rx"))] },
        Stmt::Render { name: Expr::s("p"), form: RenderForm::For(Src::Expr(Expr::var("arr")), "x".into()), args: vec![] },
        Stmt::Out(Expr::var("undefined_var")),
        Stmt::Assign("x".into(), Expr::s("ax")),
        Stmt::Break,
    ];
    let compounds: Vec<Wrap> = vec![
        Box::new(|b| for_("i", Src::Range(Expr::int(1), Expr::int(2)), b)),
        Box::new(|b| if_(Cond::Truthy(Expr::var("x")), b, Some(vec![text("else")]))),
        Box::new(|b| Stmt::Case { target: Expr::var("x"), whens: vec![(vec![Expr::s("dx")], false, b), (vec![Expr::s("zz"), Expr::s("dx")], false, vec![text("w2")])], else_: Some(vec![text("ce")]) }), // the second arm matches too: only the first may run
        Box::new(|b| Stmt::TableRow { var: "i".into(), src: Src::Range(Expr::int(1), Expr::int(3)), cols: Some(Expr::int(2)), limit: None, offset: None, body: b }),
        Box::new(Stmt::IfChanged),
        Box::new(|b| Stmt::Capture("x".into(), b)),
    ];
    Grammar::new(leaves, compounds, 3, max_n)
}

fn family(report: &Report, max_n: usize) {
    let g = grammar(max_n);
    let total = g.count_upto(max_n);
    // `p.liquid` exists next to `p`: render's fallback lookup must never run after `p` itself failed on the sink
    let partials = vec![("p".to_string(), "<p:{{ x }}{% cycle 'u', 'v' %}>".to_string()), ("p.liquid".to_string(), "<alt>".to_string())];
    let parser = cfgs::build(Config::Stdlib, Policy::Eager, &partials).expect("parser");
    let datas = [
        V::obj(&[("x", V::s("dx")), ("arr", V::Arr(vec![V::s("e1"), V::s("é2")]))]),
        V::obj(&[("arr", V::Arr(vec![]))]),
        V::obj(&[("x", V::Int(7)), ("arr", V::Arr(vec![V::Arr(vec![V::Int(1), V::Int(2)]), V::s("z")]))]),
    ];
    let globals: Vec<liquid::Object> = datas.iter().map(|d| d.to_object()).collect();
    let name = format!("fault-enumeration/N<={max_n}");
    let c = Counters { fault_runs: AtomicU64::new(0), positions: AtomicU64::new(0), nontriv: AtomicU64::new(0) };
    let (fault_runs, positions, nontriv) = (&c.fault_runs, &c.positions, &c.nontriv);
    par_range(
        report,
        &name,
        total,
        |i| {
            let prog = g.unrank_upto(i, max_n);
            let textp = print(&prog);
            let Ok(Ok(tmpl)) = cfgs::parse_guarded(&parser, &textp) else {
                report.violation("C10|well-formed-program-rejected", i, json!({"kind":"fault","template":textp}), "generated program does not parse".into());
                return;
            };
            for (di, d) in datas.iter().enumerate() {
                enumerate_faults(report, &c, i, &textp, &tmpl, d, &globals[di], &partials, false);
            }
        },
        |i| json!({"kind":"fault","template":print(&g.unrank_upto(i, max_n))}),
    );
    report.sample(json!({"family": name, "template": print(&g.unrank_upto(total - 9, max_n)), "data": datas[0].to_json(), "faults": "FailAt(k), ShortThenFail(k,0|1|len-1), InterruptedOnce(k), ShortOnce(k,1) for every k in 1..W; Chunked(1|2|3) once per run"}));
    report.nontrivial.fetch_add(nontriv.load(Ordering::Relaxed), Ordering::Relaxed);
    report.extra("write_positions", json!(positions.load(Ordering::Relaxed)));
    report.extra("fault_runs", json!(fault_runs.load(Ordering::Relaxed)));
    report.family(FamilyStat {
        name,
        cases: total * datas.len() as u64,
        nontrivial: nontriv.load(Ordering::Relaxed),
        skipped: 0,
        note: format!("programs={} x data={}; write positions={} fault runs={}", total, datas.len(), positions.load(Ordering::Relaxed), fault_runs.load(Ordering::Relaxed)),
    });
}

/// Long literal and data text with multi-byte characters at every alignment.  The generated
/// programs above write short pieces; anything the engine does with the *bytes* of a piece on the
/// failure path (an excerpt for the error, a retry from an offset, a partial copy) needs a piece
/// that is long and whose character boundaries fall at every residue.  Every piece is
/// `"a" * s + c * n` for 2-, 3- and 4-byte `c` and s = 0..3, and for every write call the sink
/// fails at the call, after **every** byte offset of the offered buffer, or accepts a short count
/// at every offset once.
fn long_text(report: &Report, reps: usize) {
    let c = Counters { fault_runs: AtomicU64::new(0), positions: AtomicU64::new(0), nontriv: AtomicU64::new(0) };
    let mut n_templates = 0u64;
    let mut idx = 0u64;
    for ch in ["é", "€", "👍"] {
        for shift in 0..4usize {
            let piece = format!("{}{}", "a".repeat(shift), ch.repeat(reps));
            let partials = vec![("lp".to_string(), format!("{piece}{{{{ v }}}}"))];
            let parser = cfgs::build(Config::Stdlib, Policy::Eager, &partials).expect("parser");
            let data = V::obj(&[("v", V::s(&piece)), ("arr", V::Arr(vec![V::s(&piece), V::s("z")]))]);
            let global = data.to_object();
            let templates = [
                piece.clone(),
                format!("{{{{ 'x' }}}}{piece}{{{{ 'y' }}}}{piece}"),
                format!("{{% raw %}}{piece}{{% endraw %}}"),
                "{{ v }}|{{ v | append: v }}".to_string(),
                format!("{{% ifchanged %}}{piece}{{% endifchanged %}}{{% ifchanged %}}{{{{ v }}}}{{% endifchanged %}}"),
                format!("{{% for i in (1..2) %}}{piece}{{% endfor %}}"),
                format!("{{% cycle '{piece}', 'b' %}}{{% cycle v, 'b' %}}"),
                format!("{{% tablerow i in arr cols:1 %}}{piece}{{{{ i }}}}{{% endtablerow %}}"),
                "{% include 'lp' %}{% render 'lp', v: v %}{% render 'lp' for arr as v %}".to_string(),
                format!("{{% capture z %}}{piece}{{% endcapture %}}{{{{ z }}}}{{{{ arr }}}}"),
                format!("{{% if v %}}{piece}{{% endif %}}{{% case v %}}{{% when v %}}{piece}{{% endcase %}}{{% unless nope %}}{{{{ v }}}}{{% endunless %}}"),
                format!("{piece}{{{{ undefined_var }}}}{piece}"),
            ];
            for t in templates {
                idx += 1;
                n_templates += 1;
                let Ok(Ok(tmpl)) = cfgs::parse_guarded(&parser, &t) else {
                    report.violation("C10|well-formed-program-rejected", idx, json!({"kind":"fault","template":t}), "long-text template does not parse".into());
                    continue;
                };
                enumerate_faults(report, &c, idx, &t, &tmpl, &data, &global, &partials, true);
            }
        }
    }
    report.extra("long_text_write_positions", json!(c.positions.load(Ordering::Relaxed)));
    report.extra("long_text_fault_runs", json!(c.fault_runs.load(Ordering::Relaxed)));
    report.nontrivial.fetch_add(c.nontriv.load(Ordering::Relaxed), Ordering::Relaxed);
    report.family(FamilyStat {
        name: format!("long non-ASCII pieces/reps={reps}"),
        cases: n_templates,
        nontrivial: c.nontriv.load(Ordering::Relaxed),
        skipped: 0,
        note: format!("12 constructs x pieces 'a'*s + c*{reps} (c of 2/3/4 bytes, s=0..3) as literal text, raw body, data string, cycle value, partial text; write positions={} fault runs={} (fail at the call, after every byte offset, short count at every byte offset)", c.positions.load(Ordering::Relaxed), c.fault_runs.load(Ordering::Relaxed)),
    });
}

pub fn run(tier: Tier) -> i32 {
    let report = Report::new("C10", tier, "fault_enumeration");
    report.set_rule("every program with 1..N nodes over the writing constructs (text, output, raw, cycle, increment/decrement, include, render, render-for, failing output, break; nested in for/if/case/tablerow/ifchanged/capture) x 3 data objects is streamed into a counting sink; then for EVERY write call k of that run the sink fails at k, accepts a short count (0, 1, len-1) then fails, reports EINTR once, or accepts a short count once and never fails; plus never-failing sinks accepting at most 1/2/3 bytes per call; plus 12 constructs over long non-ASCII pieces at every alignment with a fault after EVERY byte offset of every write; evaluations = fault-free + faulted runs; non-trivial = (program, data) pairs with at least one write call");
    report.assume("std::io::Write::write_all semantics (retry on Interrupted, WriteZero on Ok(0))");
    family(&report, if tier.thorough() { 4 } else { 3 });
    long_text(&report, if tier.thorough() { 64 } else { 24 });
    report.finish()
}
