//! C04 — scoping: innermost binding wins, assignments persist, caller data untouched.
//! Exhaustive enumeration of all programs up to a node bound over a small name
//! alphabet, each compared with the reference interpreter.

use crate::ast::*;
use crate::cfgs::{self, Config, Outcome, Policy};
use crate::cmp;
use crate::progen::{instrument, number_literals, Grammar, Wrap};
use crate::refl::{self, Partial};
use crate::report::{FamilyStat, Report, Tier};
use crate::run::par_range;
use crate::val::V;
use serde_json::json;
use std::collections::BTreeMap;
use std::sync::atomic::{AtomicU64, Ordering};

fn grammar(names: &[&'static str], max_n: usize) -> Grammar {
    let mut leaves = Vec::new();
    for n in names {
        leaves.push(Stmt::Assign(n.to_string(), Expr::s("?")));
        for m in names {
            leaves.push(Stmt::Assign(n.to_string(), Expr::var(m)));
        }
        leaves.push(Stmt::Incr(n.to_string()));
        leaves.push(Stmt::Decr(n.to_string()));
        // a capture of one fixed text (not instrumented): the same text captured again after the name was rebound
        leaves.push(Stmt::Capture(n.to_string(), vec![text("k")]));
        leaves.push(Stmt::Out(Expr::var(n)));
        leaves.push(Stmt::Include { name: Expr::s("p"), args: vec![(n.to_string(), Expr::s("?"))] });
        for m in names {
            leaves.push(Stmt::Include { name: Expr::s("p"), args: vec![(n.to_string(), Expr::var(m))] });
        }
    }
    leaves.push(Stmt::Include { name: Expr::s("p"), args: vec![] });
    // two arguments whose expressions read each other's names: every argument is evaluated in the scope of the tag,
    // none of them sees a sibling (in either order)
    if names.len() >= 2 {
        for (n1, n2) in [(names[0], names[1]), (names[1], names[0])] {
            for a in &names[..2] {
                for b in &names[..2] {
                    leaves.push(Stmt::Include { name: Expr::s("p"), args: vec![(n1.to_string(), Expr::var(a)), (n2.to_string(), Expr::var(b))] });
                }
            }
        }
    }
    let mut compounds: Vec<Wrap> = Vec::new();
    for n in names {
        let n1 = n.to_string();
        compounds.push(Box::new(move |b| Stmt::Capture(n1.clone(), b)));
        let n2 = n.to_string();
        compounds.push(Box::new(move |b| for_(&n2, Src::Range(Expr::int(1), Expr::int(2)), b)));
        for m in names {
            let (n3, m3) = (n.to_string(), m.to_string());
            compounds.push(Box::new(move |b| for_(&n3, Src::Expr(Expr::var(&m3)), b)));
        }
        let n4 = n.to_string();
        compounds.push(Box::new(move |b| if_(Cond::Truthy(Expr::var(&n4)), b, None)));
        // the other binders and the other body-holding blocks: a tablerow variable is a loop variable too, and
        // an assignment inside unless / case / ifchanged bodies binds for the rest of the render like anywhere else
        let n5 = n.to_string();
        compounds.push(Box::new(move |b| Stmt::TableRow { var: n5.clone(), src: Src::Range(Expr::int(1), Expr::int(2)), cols: Some(Expr::int(1)), limit: None, offset: None, body: b }));
        let n6 = n.to_string();
        compounds.push(Box::new(move |b| Stmt::If { unless: true, cond: Cond::Truthy(Expr::var(&n6)), body: b, elsifs: vec![], else_: None }));
        let n7 = n.to_string();
        compounds.push(Box::new(move |b| Stmt::Case { target: Expr::var(&n7), whens: vec![(vec![Expr::s("dx"), Expr::int(1)], false, b)], else_: None }));
    }
    compounds.push(Box::new(Stmt::IfChanged));
    Grammar::new(leaves, compounds, 4, max_n)
}

fn partial_p(names: &[&'static str]) -> Vec<Stmt> {
    // sees the caller's scope, rebinds the first name, probes before and after
    let mut v = vec![text("(p")];
    v.extend(crate::progen::probes(names));
    v.push(Stmt::Assign(names[0].to_string(), Expr::s("px")));
    v.push(Stmt::Incr(names[names.len() - 1].to_string()));
    v.extend(crate::progen::probes(names));
    v.push(text(")"));
    v
}

fn datas(names: &[&'static str]) -> Vec<V> {
    let mut d = vec![V::Obj(vec![])];
    d.push(V::obj(&[(names[0], V::s("dx"))]));
    d.push(V::obj(&[(names[0], V::s("dx")), (names[1], V::Arr(vec![V::s("e1"), V::s("e2")]))]));
    let all: Vec<(&str, V)> = names
        .iter()
        .enumerate()
        .map(|(i, n)| (*n, if i % 2 == 0 { V::Arr(vec![V::Int(7), V::s("e")]) } else { V::s("dy") }))
        .collect();
    d.push(V::obj(&all));
    d
}

fn family(report: &Report, names: &[&'static str], max_n: usize) {
    let g = grammar(names, max_n);
    let total = g.count_upto(max_n);
    let pbody = partial_p(names);
    let partials_src = vec![("p".to_string(), print(&pbody))];
    let mut pmap = BTreeMap::new();
    pmap.insert("p".to_string(), Partial::Ok(pbody));
    let parser = cfgs::build(Config::Stdlib, Policy::Eager, &partials_src).expect("parser");
    let datas = datas(names);
    let globals: Vec<liquid::Object> = datas.iter().map(|d| d.to_object()).collect();
    let name = format!("programs/names={}/N<={}", names.len(), max_n);
    let compared = AtomicU64::new(0);
    let nontriv = AtomicU64::new(0);
    let skipped0 = report.skipped.load(Ordering::Relaxed);
    let build = |i: u64| -> (Vec<Stmt>, String) {
        let mut prog = g.unrank_upto(i, max_n);
        let mut c = 0;
        number_literals(&mut prog, &mut c);
        let inst = instrument(&prog, names);
        let text = print(&inst);
        (inst, text)
    };
    par_range(
        report,
        &name,
        total,
        |i| {
            let (inst, text) = build(i);
            let tmpl = match cfgs::parse_guarded(&parser, &text) {
                Ok(Ok(t)) => Some(t),
                Ok(Err(e)) => {
                    report.violation("C04|well-formed-program-rejected", i, cmp::witness(&text, &datas[0], &partials_src), e);
                    None
                }
                Err(pi) => {
                    report.violation(&format!("C04|{}", pi.sig()), i, cmp::witness(&text, &datas[0], &partials_src), pi.describe());
                    None
                }
            };
            let Some(tmpl) = tmpl else { return };
            for (di, d) in datas.iter().enumerate() {
                report.eval();
                let expected = refl::run_with(&inst, d, &pmap);
                let before = globals[di].clone();
                let actual = match cfgs::render_guarded(&tmpl, &globals[di]) {
                    Ok(Ok(s)) => Outcome::Ok(s),
                    Ok(Err(e)) => Outcome::RenderErr(e),
                    Err(pi) => Outcome::Panic(pi.describe()),
                };
                if before != globals[di] {
                    report.violation("C04|caller-data-modified", i, cmp::witness(&text, d, &partials_src), "the caller's data object changed during render".into());
                }
                // tablerow's <tr>/<td> wrapper markup is C05's business: compared modulo it here
                let actual = match (&expected, actual) {
                    (Ok(exp), Outcome::Ok(s)) if s != *exp && text.contains("tablerow") && super::c05::strip_tablerow(&s).0.replace('\n', "") == super::c05::strip_tablerow(exp).0 => Outcome::Ok(exp.clone()),
                    (_, a) => a,
                };
                if cmp::check(report, "C04", "scoping", i * 8 + di as u64, || cmp::witness(&text, d, &partials_src), &expected, &actual) {
                    compared.fetch_add(1, Ordering::Relaxed);
                    if let Ok(s) = &expected {
                        // non-trivial: at least one probe shows a binding
                        if s.chars().any(|c| c.is_ascii_alphanumeric()) {
                            nontriv.fetch_add(1, Ordering::Relaxed);
                        }
                        report.outcome(s);
                    }
                }
            }
        },
        |i| cmp::witness(&build(i).1, &datas[0], &partials_src),
    );
    let (_, t) = build(total - 1);
    report.sample(json!({"family": name, "template": t, "data": datas[2].to_json(), "expected": format!("{:?}", refl::run_with(&build(total - 1).0, &datas[2], &pmap))}));
    let (_, t) = build(total / 2);
    report.sample(json!({"family": name, "template": t}));
    report.states.fetch_add(total, Ordering::Relaxed);
    report.transitions.fetch_add(total * datas.len() as u64, Ordering::Relaxed);
    report.traces.fetch_add(compared.load(Ordering::Relaxed), Ordering::Relaxed);
    report.nontrivial.fetch_add(nontriv.load(Ordering::Relaxed), Ordering::Relaxed);
    report.family(FamilyStat {
        name,
        cases: total * datas.len() as u64,
        nontrivial: nontriv.load(Ordering::Relaxed),
        skipped: report.skipped.load(Ordering::Relaxed) - skipped0,
        note: format!("programs={} x data={} leaves={} compounds={}", total, datas.len(), g.leaves.len(), g.compounds.len()),
    });
}


/// Dotted reads under shadowing.  The generator's probes read plain names; here the *outer*
/// binding of `x` is an object that has member `a` and the *inner* binding (assign, capture, loop
/// variable, include argument, a copied object) lacks it.  The innermost binding wins for paths
/// too: the existence test `{% if x.a %}` is false, `{{ x.a }}` fails, and after the inner binding
/// ends the outer one is visible again.  Expected outputs are written out by hand.
fn dotted_shadowing(report: &Report) {
    let partials = vec![("p".to_string(), "{% if x.a %}T{{ x.a }}{% else %}F{% endif %}".to_string()), ("q".to_string(), "[{{ v }}]".to_string())];
    let parser = cfgs::build(Config::Stdlib, Policy::Eager, &partials).expect("parser");
    let probe = "{% if x.a %}T{{ x.a }}{% else %}F{% endif %}";
    let data = V::obj(&[
        ("x", V::obj(&[("a", V::s("outer")), ("b", V::obj(&[("c", V::s("deep"))]))])),
        ("o2", V::obj(&[("b", V::Int(1))])),
        ("arr", V::Arr(vec![V::Int(1), V::obj(&[("b", V::Int(2))]), V::obj(&[("a", V::s("loop"))])])),
        ("s", V::s("scalar")),
    ]);
    // (template, expected output or None = must be a render error)
    let cases: Vec<(String, Option<&str>)> = vec![
        (probe.to_string(), Some("Touter")),
        (format!("{{% assign x = 'lit' %}}{probe}"), Some("F")),
        (format!("{{% assign x = s %}}{probe}|{{% unless x.a %}}U{{% endunless %}}"), Some("F|U")),
        (format!("{{% capture x %}}c{{% endcapture %}}{probe}"), Some("F")),
        (format!("{{% assign x = o2 %}}{probe}|{{{{ x.b }}}}"), Some("F|1")),
        (format!("{{% for x in arr %}}{probe},{{% endfor %}}{probe}"), Some("F,F,Tloop,Touter")),
        (format!("{{% assign x = 'lit' %}}{{% for x in arr %}}{probe},{{% endfor %}}{probe}"), Some("F,F,Tloop,F")),
        (format!("{{% for i in (1..2) %}}{{% assign x = i %}}{probe},{{% endfor %}}{probe}"), Some("F,F,F")),
        ("{% include 'p' x: 'arg' %}|{% include 'p' %}".to_string(), Some("F|Touter")),
        ("{% include 'p' x: o2 %}|{% render 'p', x: s %}|{% render 'p', x: x %}|{% render 'p' %}".to_string(), Some("F|F|Touter|F")),
        (format!("{{% increment x %}}{probe}"), Some("0Touter")),
        (format!("{{% if x.b.c %}}D{{% endif %}}{{% assign x = o2 %}}{{% if x.b.c %}}D{{% else %}}E{{% endif %}}"), Some("DE")),
        // arguments are evaluated in the caller's scope: a member missing on the innermost binding is an error
        // (or, equally acceptable, an absent value) -- never the outer binding's member
        ("{% assign x = 'lit' %}{% include 'q' v: x.a %}".to_string(), Some("!ERR-OR:[]")),
        ("{% assign x = 'lit' %}{% render 'q', v: x.a %}".to_string(), Some("!ERR-OR:[]")),
        ("{% include 'q' v: x.a %}".to_string(), Some("[outer]")),
        // the failing forms
        ("{% assign x = 'lit' %}{{ x.a }}".to_string(), None),
        ("{% assign x = 'lit' %}{% if x.a == 'outer' %}T{% endif %}".to_string(), Some("!ERR-OR:")),
        ("{% for x in arr %}{{ x.a }}{% endfor %}".to_string(), None),
        ("{% capture x %}c{% endcapture %}{% assign y = x.a %}[{{ y }}]".to_string(), Some("!ERR-OR:[]")),
    ];
    let mut n = 0u64;
    for (i, (text, want)) in cases.iter().enumerate() {
        n += 1;
        report.eval();
        let (actual, _) = cfgs::run_case(&parser, text, &data.to_object());
        let ok = match (&actual, want) {
            (Outcome::Ok(s), Some(w)) if w.starts_with("!ERR-OR:") => *s == w["!ERR-OR:".len()..],
            (Outcome::RenderErr(_), Some(w)) if w.starts_with("!ERR-OR:") => true,
            (Outcome::Ok(s), Some(w)) => s == w,
            (Outcome::RenderErr(_), None) => true,
            _ => false,
        };
        if !ok {
            let class = match (&actual, want) {
                (Outcome::Panic(_), _) => "panic",
                (Outcome::Ok(_), None) => "expected-error-got-output",
                (Outcome::Ok(_), Some(_)) => "output-differs",
                _ => "expected-output-got-error",
            };
            report.violation(&format!("C04|dotted-shadowing|{class}"), i as u64, cmp::witness(text, &data, &partials), format!("{text}: expected {want:?} got {}", actual.short()));
        } else if let Outcome::Ok(s) = &actual {
            report.outcome(s);
        }
    }
    report.states.fetch_add(n, Ordering::Relaxed);
    report.transitions.fetch_add(n, Ordering::Relaxed);
    report.traces.fetch_add(n, Ordering::Relaxed);
    report.nontrivial.fetch_add(n, Ordering::Relaxed);
    report.family(FamilyStat { name: "dotted reads under shadowing".into(), cases: n, nontrivial: n, skipped: 0, note: "outer object with member a; inner binding (assign, capture, copied object, loop variable, include/render argument, counter) without it; existence tests, outputs, comparisons and argument values; hand-written expectations".into() });
}

pub fn run(tier: Tier) -> i32 {
    let report = Report::new("C04", tier, "model_checking");
    report.set_rule("every program with 1..N statement nodes (nesting <= 4) over assign/copy/increment/decrement/output/include leaves and capture/for/tablerow/if/unless/case/ifchanged compounds on a reused 2-3 name alphabet is unranked from its index (no repetition), instrumented with non-raising probes of every name after every statement and at the start of every body, and rendered on 4 caller data objects; states = programs, transitions = (program, data) executions, traces_validated = executions whose complete output or error status was compared with the reference interpreter; non-trivial = predicted output shows at least one binding");
    report.assume("reference interpreter refliquid (harness/lqv-core/src/refl.rs) is the model; values are truthy so that probes are exact");
    family(&report, &["x", "y"], 3);
    dotted_shadowing(&report);
    if tier.thorough() {
        family(&report, &["x", "y"], 4);
        family(&report, &["x", "y", "z"], 3);
    }
    report.finish()
}
