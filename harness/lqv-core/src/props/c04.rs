//! C04 — scoping: innermost binding wins, assignments persist, caller data untouched.
//! Exhaustive enumeration of all programs up to a node bound over a small name
//! alphabet, each compared with the reference interpreter.

use crate::ast::*;
use crate::cfgs::{self, Config, Outcome, Policy};
use crate::cmp;
use crate::progen::{instrument, number_literals, Grammar, Wrap};
use crate::refl::{self, Partial};
use crate::report::{FamilyStat, Report, Tier};
use crate::run::par_range;
use crate::val::V;
use serde_json::json;
use std::collections::BTreeMap;
use std::sync::atomic::{AtomicU64, Ordering};

fn grammar(names: &[&'static str], max_n: usize) -> Grammar {
    let mut leaves = Vec::new();
    for n in names {
        leaves.push(Stmt::Assign(n.to_string(), Expr::s("?")));
        for m in names {
            leaves.push(Stmt::Assign(n.to_string(), Expr::var(m)));
        }
        leaves.push(Stmt::Incr(n.to_string()));
        leaves.push(Stmt::Decr(n.to_string()));
        leaves.push(Stmt::Out(Expr::var(n)));
        leaves.push(Stmt::Include { name: Expr::s("p"), args: vec![(n.to_string(), Expr::s("?"))] });
        for m in names {
            leaves.push(Stmt::Include { name: Expr::s("p"), args: vec![(n.to_string(), Expr::var(m))] });
        }
    }
    leaves.push(Stmt::Include { name: Expr::s("p"), args: vec![] });
    let mut compounds: Vec<Wrap> = Vec::new();
    for n in names {
        let n1 = n.to_string();
        compounds.push(Box::new(move |b| Stmt::Capture(n1.clone(), b)));
        let n2 = n.to_string();
        compounds.push(Box::new(move |b| for_(&n2, Src::Range(Expr::int(1), Expr::int(2)), b)));
        for m in names {
            let (n3, m3) = (n.to_string(), m.to_string());
            compounds.push(Box::new(move |b| for_(&n3, Src::Expr(Expr::var(&m3)), b)));
        }
        let n4 = n.to_string();
        compounds.push(Box::new(move |b| if_(Cond::Truthy(Expr::var(&n4)), b, None)));
    }
    Grammar::new(leaves, compounds, 4, max_n)
}

fn partial_p(names: &[&'static str]) -> Vec<Stmt> {
    // sees the caller's scope, rebinds the first name, probes before and after
    let mut v = vec![text("(p")];
    v.extend(crate::progen::probes(names));
    v.push(Stmt::Assign(names[0].to_string(), Expr::s("px")));
    v.push(Stmt::Incr(names[names.len() - 1].to_string()));
    v.extend(crate::progen::probes(names));
    v.push(text(")"));
    v
}

fn datas(names: &[&'static str]) -> Vec<V> {
    let mut d = vec![V::Obj(vec![])];
    d.push(V::obj(&[(names[0], V::s("dx"))]));
    d.push(V::obj(&[(names[0], V::s("dx")), (names[1], V::Arr(vec![V::s("e1"), V::s("e2")]))]));
    let all: Vec<(&str, V)> = names
        .iter()
        .enumerate()
        .map(|(i, n)| (*n, if i % 2 == 0 { V::Arr(vec![V::Int(7), V::s("e")]) } else { V::s("dy") }))
        .collect();
    d.push(V::obj(&all));
    d
}

fn family(report: &Report, names: &[&'static str], max_n: usize) {
    let g = grammar(names, max_n);
    let total = g.count_upto(max_n);
    let pbody = partial_p(names);
    let partials_src = vec![("p".to_string(), print(&pbody))];
    let mut pmap = BTreeMap::new();
    pmap.insert("p".to_string(), Partial::Ok(pbody));
    let parser = cfgs::build(Config::Stdlib, Policy::Eager, &partials_src).expect("parser");
    let datas = datas(names);
    let globals: Vec<liquid::Object> = datas.iter().map(|d| d.to_object()).collect();
    let name = format!("programs/names={}/N<={}", names.len(), max_n);
    let compared = AtomicU64::new(0);
    let nontriv = AtomicU64::new(0);
    let skipped0 = report.skipped.load(Ordering::Relaxed);
    let build = |i: u64| -> (Vec<Stmt>, String) {
        let mut prog = g.unrank_upto(i, max_n);
        let mut c = 0;
        number_literals(&mut prog, &mut c);
        let inst = instrument(&prog, names);
        let text = print(&inst);
        (inst, text)
    };
    par_range(
        report,
        &name,
        total,
        |i| {
            let (inst, text) = build(i);
            let tmpl = match cfgs::parse_guarded(&parser, &text) {
                Ok(Ok(t)) => Some(t),
                Ok(Err(e)) => {
                    report.violation("C04|well-formed-program-rejected", i, cmp::witness(&text, &datas[0], &partials_src), e);
                    None
                }
                Err(pi) => {
                    report.violation(&format!("C04|{}", pi.sig()), i, cmp::witness(&text, &datas[0], &partials_src), pi.describe());
                    None
                }
            };
            let Some(tmpl) = tmpl else { return };
            for (di, d) in datas.iter().enumerate() {
                report.eval();
                let expected = refl::run_with(&inst, d, &pmap);
                let before = globals[di].clone();
                let actual = match cfgs::render_guarded(&tmpl, &globals[di]) {
                    Ok(Ok(s)) => Outcome::Ok(s),
                    Ok(Err(e)) => Outcome::RenderErr(e),
                    Err(pi) => Outcome::Panic(pi.describe()),
                };
                if before != globals[di] {
                    report.violation("C04|caller-data-modified", i, cmp::witness(&text, d, &partials_src), "the caller's data object changed during render".into());
                }
                if cmp::check(report, "C04", "scoping", i * 8 + di as u64, || cmp::witness(&text, d, &partials_src), &expected, &actual) {
                    compared.fetch_add(1, Ordering::Relaxed);
                    if let Ok(s) = &expected {
                        // non-trivial: at least one probe shows a binding
                        if s.chars().any(|c| c.is_ascii_alphanumeric()) {
                            nontriv.fetch_add(1, Ordering::Relaxed);
                        }
                        report.outcome(s);
                    }
                }
            }
        },
        |i| cmp::witness(&build(i).1, &datas[0], &partials_src),
    );
    let (_, t) = build(total - 1);
    report.sample(json!({"family": name, "template": t, "data": datas[2].to_json(), "expected": format!("{:?}", refl::run_with(&build(total - 1).0, &datas[2], &pmap))}));
    let (_, t) = build(total / 2);
    report.sample(json!({"family": name, "template": t}));
    report.states.fetch_add(total, Ordering::Relaxed);
    report.transitions.fetch_add(total * datas.len() as u64, Ordering::Relaxed);
    report.traces.fetch_add(compared.load(Ordering::Relaxed), Ordering::Relaxed);
    report.nontrivial.fetch_add(nontriv.load(Ordering::Relaxed), Ordering::Relaxed);
    report.family(FamilyStat {
        name,
        cases: total * datas.len() as u64,
        nontrivial: nontriv.load(Ordering::Relaxed),
        skipped: report.skipped.load(Ordering::Relaxed) - skipped0,
        note: format!("programs={} x data={} leaves={} compounds={}", total, datas.len(), g.leaves.len(), g.compounds.len()),
    });
}

pub fn run(tier: Tier) -> i32 {
    let report = Report::new("C04", tier, "model_checking");
    report.set_rule("every program with 1..N statement nodes (nesting <= 4) over assign/copy/increment/decrement/output/include leaves and capture/for/if compounds on a reused 2-3 name alphabet is unranked from its index (no repetition), instrumented with non-raising probes of every name after every statement and at the start of every body, and rendered on 4 caller data objects; states = programs, transitions = (program, data) executions, traces_validated = executions whose complete output or error status was compared with the reference interpreter; non-trivial = predicted output shows at least one binding");
    report.assume("reference interpreter refliquid (harness/lqv-core/src/refl.rs) is the model; values are truthy so that probes are exact");
    family(&report, &["x", "y"], 3);
    if tier.thorough() {
        family(&report, &["x", "y"], 4);
        family(&report, &["x", "y", "z"], 3);
    }
    report.finish()
}
