//! C15 — arithmetic filters are exact or fail; they never wrap or crash.

use crate::cfgs::{self, Config, Outcome};
use crate::report::{FamilyStat, Report, Tier};
use crate::run::{decode, par_range, product};
use crate::val::V;
use serde_json::json;
use std::sync::atomic::{AtomicU64, Ordering};

const INTS: [i64; 22] = [
    0, 1, -1, 2, -2, 3, -3, 7, -7, 10, 1 << 31, -(1 << 31), 1 << 62, -(1 << 62), i64::MAX - 1, i64::MAX, i64::MIN, i64::MIN + 1,
    (1 << 53) + 1, -(1 << 53) - 1, 3037000500, -3037000500,
];

const BINARY: [&str; 7] = ["plus", "minus", "times", "divided_by", "modulo", "at_least", "at_most"];

#[derive(Clone, Copy, Debug, PartialEq)]
enum Num {
    I(i64),
    F(f64),
}

/// representation of an operand: 0 integer, 1 numeric string of the integer, 2 float, 3 numeric string of a float
fn operand(v: i64, repr: u64) -> (V, Num) {
    match repr {
        0 => (V::Int(v), Num::I(v)),
        1 => (V::Str(v.to_string()), Num::I(v)),
        2 => (V::Float(v as f64), Num::F(v as f64)),
        _ => {
            let f = v as f64 + 0.5;
            (V::Str(format!("{f:?}")), Num::F(f))
        }
    }
}

fn as_f(n: Num) -> f64 {
    match n {
        Num::I(i) => i as f64,
        Num::F(f) => f,
    }
}

fn same_f64(a: f64, b: f64) -> bool {
    (a.is_nan() && b.is_nan()) || a.to_bits() == b.to_bits() || (a == 0.0 && b == 0.0)
}

/// Some(exact) for integer operands
fn exact(f: &str, a: i128, b: i128) -> Option<i128> {
    Some(match f {
        "plus" => a + b,
        "minus" => a - b,
        "times" => a * b,
        "at_least" => a.max(b),
        "at_most" => a.min(b),
        _ => return None,
    })
}

fn parse_out(o: &Outcome) -> Option<&str> {
    match o {
        Outcome::Ok(s) => Some(s.as_str()),
        _ => None,
    }
}

fn binary(report: &Report, thorough: bool) {
    let parser = cfgs::parser(Config::Stdlib);
    let n = INTS.len() as u64;
    let rad = [n, n, 4, 4, BINARY.len() as u64];
    let total = product(&rad);
    let name = "binary/int-grid x 4x4 representations x 7 filters".to_string();
    let nontriv = AtomicU64::new(0);
    par_range(
        report,
        &name,
        total,
        |i| {
            let d = decode(i, &rad);
            let (va, na) = operand(INTS[d[0] as usize], d[2]);
            let (vb, nb) = operand(INTS[d[1] as usize], d[3]);
            let f = BINARY[d[4] as usize];
            check_binary(report, &parser, i, f, va, na, vb, nb, &nontriv);
        },
        |i| json!({"index": i}),
    );
    report.family(FamilyStat { name, cases: total, nontrivial: nontriv.load(Ordering::Relaxed), skipped: 0, note: format!("{} integers incl. i64 bounds, each as integer / numeric string / float / fractional numeric string", INTS.len()) });
    // k/8 grid
    let rad = [81, 81, BINARY.len() as u64, 2];
    let total = product(&rad);
    let name = "binary/k-over-8 grid (|k|<=40) x 7 filters".to_string();
    let nt0 = nontriv.load(Ordering::Relaxed);
    par_range(
        report,
        &name,
        total,
        |i| {
            let d = decode(i, &rad);
            let a = (d[0] as f64 - 40.0) / 8.0;
            let b = (d[1] as f64 - 40.0) / 8.0;
            let f = BINARY[d[2] as usize];
            let (va, vb) = if d[3] == 0 { (V::Float(a), V::Float(b)) } else { (V::Str(format!("{a:?}")), V::Float(b)) };
            check_binary(report, &parser, i, f, va, Num::F(a), vb, Num::F(b), &nontriv);
        },
        |i| json!({"index": i}),
    );
    report.family(FamilyStat { name, cases: total, nontrivial: nontriv.load(Ordering::Relaxed) - nt0, skipped: 0, note: String::new() });
    // powers of two and their neighbours: every carry / overflow boundary of 64-bit arithmetic
    let mut pw: Vec<i64> = vec![0];
    for k in 0..63u32 {
        for d in if thorough { -3i64..=3 } else { -1i64..=1 } {
            let v = (1i64 << k).wrapping_add(d);
            pw.push(v);
            pw.push(v.wrapping_neg());
        }
    }
    pw.extend([i64::MAX, i64::MIN, i64::MIN + 1]);
    pw.sort();
    pw.dedup();
    let m = pw.len() as u64;
    let rad = [m, m, BINARY.len() as u64];
    let total = product(&rad);
    let name = format!("binary/power-of-two neighbourhood grid ({m} integers) x 7 filters");
    let nt0 = nontriv.load(Ordering::Relaxed);
    par_range(
        report,
        &name,
        total,
        |i| {
            let d = decode(i, &rad);
            let (a, b) = (pw[d[0] as usize], pw[d[1] as usize]);
            check_binary(report, &parser, i, BINARY[d[2] as usize], V::Int(a), Num::I(a), V::Int(b), Num::I(b), &nontriv);
        },
        |i| json!({"index": i}),
    );
    report.family(FamilyStat { name, cases: total, nontrivial: nontriv.load(Ordering::Relaxed) - nt0, skipped: 0, note: if thorough { "+-(2^k + d) for k in 0..62, |d| <= 3".into() } else { "+-2^k, +-(2^k+-1) for k in 0..62".into() } });
    if thorough {
        // the same neighbourhoods (|d| <= 1) with one operand spelled as a numeric string or held as a float
        let mut pw1: Vec<i64> = vec![0, i64::MAX, i64::MIN, i64::MIN + 1];
        for k in 0..63u32 {
            for d in -1i64..=1 {
                let v = (1i64 << k).wrapping_add(d);
                pw1.push(v);
                pw1.push(v.wrapping_neg());
            }
        }
        pw1.sort();
        pw1.dedup();
        let m = pw1.len() as u64;
        let reprs: [(u64, u64); 6] = [(0, 1), (1, 0), (1, 1), (0, 2), (2, 0), (2, 2)];
        let rad = [m, m, BINARY.len() as u64, reprs.len() as u64];
        let total = product(&rad);
        let name = format!("binary/power-of-two neighbourhood grid ({m} integers) x 7 filters x 6 mixed representations");
        let nt1 = nontriv.load(Ordering::Relaxed);
        par_range(
            report,
            &name,
            total,
            |i| {
                let d = decode(i, &rad);
                let (ra, rb) = reprs[d[3] as usize];
                let (va, na) = operand(pw1[d[0] as usize], ra);
                let (vb, nb) = operand(pw1[d[1] as usize], rb);
                check_binary(report, &parser, i, BINARY[d[2] as usize], va, na, vb, nb, &nontriv);
            },
            |i| json!({"index": i}),
        );
        report.family(FamilyStat { name, cases: total, nontrivial: nontriv.load(Ordering::Relaxed) - nt1, skipped: 0, note: "integer x numeric string, string x integer, string x string, integer x float, float x integer, float x float".into() });
    }
    report.nontrivial.fetch_add(nontriv.load(Ordering::Relaxed), Ordering::Relaxed);
}

#[allow(clippy::too_many_arguments)]
fn check_binary(report: &Report, parser: &liquid::Parser, i: u64, f: &str, va: V, na: Num, vb: V, nb: Num, nontriv: &AtomicU64) {
    let data = V::obj(&[("a", va.clone()), ("b", vb.clone())]);
    let text = format!("{{{{ a | {f}: b }}}}");
    report.eval();
    let (actual, _) = cfgs::run_case(parser, &text, &data.to_object());
    let w = || json!({"kind":"render","template":text,"data":data.to_json(),"partials":[],"actual":actual.to_json()});
    let kinds = format!("{}-{}", va.kind(), vb.kind());
    let bad = |clause: &str, detail: String| {
        report.violation(&format!("C15|{f}|{clause}|{kinds}"), i, w(), detail);
    };
    if let Outcome::Panic(m) = &actual {
        report.violation(&format!("C15|{f}|panic|{}", crate::report::norm_msg(m)), i, w(), m.clone());
        return;
    }
    nontriv.fetch_add(1, Ordering::Relaxed);
    if i % 53 == 0 {
        report.outcome(&actual.short());
    }
    match (na, nb) {
        (Num::I(a), Num::I(b)) => {
            let (a, b) = (a as i128, b as i128);
            if f == "divided_by" || f == "modulo" {
                if b == 0 {
                    if !actual.is_err() {
                        bad("division-by-zero-not-an-error", format!("got {}", actual.short()));
                    }
                    return;
                }
                // joint identity: n == q*d + r, |r| < |d|
                let q = render_num(parser, "divided_by", &data);
                let r = render_num(parser, "modulo", &data);
                report.eval();
                match (q, r) {
                    (Some(Ok(q)), Some(Ok(r))) => {
                        if q * b + r != a || r.abs() >= b.abs() {
                            bad("quotient-remainder-identity", format!("{a} / {b}: q={q} r={r}"));
                        }
                    }
                    (Some(Err(qf)), Some(r)) => {
                        // quotient does not fit i64 (MIN / -1): must be the nearest double of the exact quotient
                        let exact_q = a / b;
                        if qf != exact_q as f64 {
                            bad("quotient-not-exact", format!("{a} / {b}: got float {qf}"));
                        }
                        let r0 = match r {
                            Ok(r) => r == 0,
                            Err(rf) => rf == 0.0,
                        };
                        if !r0 {
                            bad("quotient-remainder-identity", format!("{a} % {b}: got {r:?}"));
                        }
                    }
                    (q, r) => bad("not-a-number", format!("{a} {f} {b}: q={q:?} r={r:?}")),
                }
                return;
            }
            let Some(ex) = exact(f, a, b) else { return };
            match &actual {
                Outcome::RenderErr(_) => {
                    if ex >= i64::MIN as i128 && ex <= i64::MAX as i128 {
                        bad("error-although-result-fits", format!("{a} {f} {b} = {ex} fits i64 but the render failed"));
                    }
                }
                Outcome::Ok(s) => {
                    if ex >= i64::MIN as i128 && ex <= i64::MAX as i128 {
                        if s != &ex.to_string() {
                            bad("inexact-integer-result", format!("{a} {f} {b} = {ex}, got {s}"));
                        }
                    } else {
                        // continue in floating point: nearest double of the exact result; never another integer
                        // (either the nearest double of the exact result or the IEEE operation on the converted operands)
                        let (fa, fb) = (a as i64 as f64, b as i64 as f64);
                        let ieee = match f {
                            "plus" => fa + fb,
                            "minus" => fa - fb,
                            "times" => fa * fb,
                            _ => ex as f64,
                        };
                        let ok = s.parse::<i64>().is_err() && s.parse::<f64>().map(|g| g == ex as f64 || g == ieee).unwrap_or(false);
                        if !ok {
                            bad("overflow-not-carried-as-float", format!("{a} {f} {b} = {ex} (outside i64), got {s}"));
                        }
                    }
                }
                other => bad("unexpected-outcome", other.short()),
            }
        }
        _ => {
            let (a, b) = (as_f(na), as_f(nb));
            let want: Vec<f64> = match f {
                "plus" => vec![a + b],
                "minus" => vec![a - b],
                "times" => vec![a * b],
                "at_least" => vec![a.max(b)],
                "at_most" => vec![a.min(b)],
                "divided_by" => vec![a / b],
                // truncated (fmod) or floored remainder
                _ => vec![a % b, a - b * (a / b).floor()],
            };
            if (f == "divided_by" || f == "modulo") && b == 0.0 {
                // error, or the IEEE result
                if actual.is_err() {
                    return;
                }
            }
            match parse_out(&actual).and_then(|s| s.parse::<f64>().ok()) {
                Some(g) => {
                    if !want.iter().any(|w| same_f64(*w, g)) {
                        bad("not-the-ieee-result", format!("{a:?} {f} {b:?}: want {want:?} got {g:?}"));
                    }
                }
                None => bad("not-a-number", format!("{a:?} {f} {b:?}: got {}", actual.short())),
            }
        }
    }
}

/// Ok(integer) or Err(float) parsed from the output of `{{ a | f: b }}`
fn render_num(parser: &liquid::Parser, f: &str, data: &V) -> Option<Result<i128, f64>> {
    let (o, _) = cfgs::run_case(parser, &format!("{{{{ a | {f}: b }}}}"), &data.to_object());
    let s = parse_out(&o)?;
    if let Ok(i) = s.parse::<i64>() {
        return Some(Ok(i as i128));
    }
    s.parse::<f64>().ok().map(Err)
}

fn round_half_away(x: f64) -> f64 {
    // exact for |x| < 2^52: x is k/8-like here
    let t = x.trunc();
    if (x - t).abs() >= 0.5 {
        t + x.signum()
    } else {
        t
    }
}

fn unary(report: &Report, thorough: bool) {
    let parser = cfgs::parser(Config::Stdlib);
    let mut n = 0u64;
    let mut nontriv = 0u64;
    let mut inputs: Vec<f64> = (-40..=40).map(|k| k as f64 / 8.0).collect();
    for i in INTS {
        let f = i as f64;
        if f.abs() < 9.2e18 {
            inputs.push(f);
            inputs.push(f + 0.5);
            inputs.push(f - 0.5);
        }
    }
    if thorough {
        // every tie k + 0.5 and both of its neighbouring doubles for |k| <= 2048, and 2^e +- {0, 0.5, one ulp} for every
        // exponent up to the last one with a fractional part
        for k in -2048i64..=2048 {
            let t = k as f64 + 0.5;
            inputs.extend([t, f64::from_bits(t.to_bits() + 1), f64::from_bits(t.to_bits() - 1)]);
        }
        for e in 0..=53i32 {
            let p = 2f64.powi(e);
            for x in [p, p + 0.5, p - 0.5, f64::from_bits(p.to_bits() + 1), f64::from_bits(p.to_bits() - 1), p + 1.0, p - 1.0] {
                inputs.push(x);
                inputs.push(-x);
            }
        }
    }
    inputs.extend([1e15 + 0.5, -1e15 - 0.5, 4503599627370495.5, -4503599627370495.5, 0.49999999999999994, -0.49999999999999994, 1e-300, -1e-300]);
    for x in &inputs {
        for repr in 0..2 {
            let v = if repr == 0 { V::Float(*x) } else { V::Str(format!("{x:?}")) };
            let data = V::obj(&[("a", v.clone())]);
            let mut check = |f: &str, arg: Option<i64>, want: f64, want_int: bool| {
                let text = match arg {
                    None => format!("{{{{ a | {f} }}}}"),
                    Some(p) => format!("{{{{ a | {f}: {p} }}}}"),
                };
                n += 1;
                report.eval();
                let (actual, _) = cfgs::run_case(&parser, &text, &data.to_object());
                let w = json!({"kind":"render","template":text,"data":data.to_json(),"partials":[],"actual":actual.to_json(),"expected":want});
                if let Outcome::Panic(m) = &actual {
                    report.violation(&format!("C15|{f}|panic|{}", crate::report::norm_msg(m)), n, w, m.clone());
                    return;
                }
                nontriv += 1;
                let ok = match parse_out(&actual) {
                    Some(s) => {
                        let num_ok = s.parse::<f64>().map(|g| g == want).unwrap_or(false);
                        let int_ok = !want_int || s.parse::<i64>().is_ok();
                        num_ok && int_ok
                    }
                    None => false,
                };
                if !ok {
                    report.violation(&format!("C15|{f}|wrong-neighbour|places={}", arg.map(|p| p.to_string()).unwrap_or("none".into())), n, w, format!("{x:?} | {f} {arg:?}: want {want:?} got {}", actual.short()));
                }
            };
            check("ceil", None, x.ceil(), true);
            check("floor", None, x.floor(), true);
            check("round", None, round_half_away(*x), true);
            check("abs", None, x.abs(), false);
            if x.abs() <= 5.0 {
                check("round", Some(0), round_half_away(*x), true);
                for p in 1..=3i64 {
                    let m = 10f64.powi(p as i32);
                    // x*m is exact on the k/8 grid
                    check("round", Some(p), round_half_away(x * m) / m, false);
                }
            }
        }
    }
    // integer inputs
    for i in INTS {
        for repr in 0..2 {
            let v = if repr == 0 { V::Int(i) } else { V::Str(i.to_string()) };
            let data = V::obj(&[("a", v)]);
            n += 1;
            report.eval();
            let (actual, _) = cfgs::run_case(&parser, "{{ a | abs }}", &data.to_object());
            let ex = (i as i128).abs();
            let ok = match &actual {
                Outcome::Ok(s) => {
                    if ex <= i64::MAX as i128 {
                        *s == ex.to_string()
                    } else {
                        s.parse::<i64>().is_err() && s.parse::<f64>().map(|g| g == ex as f64).unwrap_or(false)
                    }
                }
                Outcome::RenderErr(_) => ex > i64::MAX as i128,
                _ => false,
            };
            nontriv += 1;
            if !ok {
                report.violation("C15|abs|integer", n, json!({"kind":"render","template":"{{ a | abs }}","data":data.to_json(),"partials":[],"actual":actual.to_json()}), format!("|{i}|: got {}", actual.short()));
            }
            if i.unsigned_abs() <= 1 << 53 {
                for f in ["ceil", "floor", "round"] {
                    n += 1;
                    report.eval();
                    let (actual, _) = cfgs::run_case(&parser, &format!("{{{{ a | {f} }}}}"), &data.to_object());
                    if actual != Outcome::Ok(i.to_string()) {
                        report.violation(&format!("C15|{f}|integer-input"), n, json!({"kind":"render","template":format!("{{{{ a | {f} }}}}"),"data":data.to_json(),"partials":[],"actual":actual.to_json()}), format!("{i} | {f}: got {}", actual.short()));
                    }
                }
            }
        }
    }
    report.nontrivial.fetch_add(nontriv, Ordering::Relaxed);
    report.sample(json!({"family": "unary", "template": "{{ a | round: 2 }}", "data": {"a": 2.125}, "expected": 2.13}));
    report.family(FamilyStat { name: "unary/ceil floor round(0..3 places) abs".into(), cases: n, nontrivial: nontriv, skipped: 0, note: format!("float inputs={} (k/8 grid, integer grid +-0.5, large and tiny values), as floats and as numeric strings; integer inputs", inputs.len()) });
}

pub fn run(tier: Tier) -> i32 {
    let report = Report::new("C15", tier, "exploration");
    report.set_rule("all ordered pairs of the integer grid (incl. i64 bounds, +-2^62, +-(2^53+1), +-3037000500) in 4x4 operand representations and all pairs of the k/8 grid for the seven binary math filters; all grid inputs for ceil/floor/round(0..3 places)/abs; distinct by construction; non-trivial = the render returned (Ok or Err) and was compared with i128 / IEEE f64 reference arithmetic");
    report.assume("integer division may truncate or floor (both satisfy the stated identity); float modulo may be truncated or floored; a float zero divisor may be an error or the IEEE result");
    binary(&report, tier.thorough());
    unary(&report, tier.thorough());
    report.sample(json!({"family": "binary", "template": "{{ a | plus: b }}", "data": {"a": i64::MAX, "b": 1}, "expected": "Err or 9223372036854775808 as float"}));
    report.finish()
}
