//! C12 — all views and conversions of a datum agree (owned, borrowed, serde, derive).

use crate::report::{FamilyStat, Report, Tier};
use crate::run::{guard, par_range};
use crate::val::V;
use liquid::ObjectView;
use liquid::ValueView;
use liquid_core::model::{from_value, to_object, to_value, State, ValueCow, ValueViewCmp};
use liquid_core::Value;
use serde_json::json;
use std::collections::{BTreeMap, HashMap};
use std::sync::atomic::{AtomicU64, Ordering};

fn leaves() -> Vec<V> {
    vec![
        V::Nil, V::Bool(true), V::Bool(false), V::Int(0), V::Int(-7), V::Int(i64::MAX), V::Int(i64::MIN), V::Float(0.5), V::Float(-2.0), V::Float(1e300),
        V::s(""), V::s(" "), V::s("\u{a0}"), V::s("\u{2003}\u{b}"), V::s("a"), V::s("é👍"), V::s("10"), V::s("2.5"), V::s("true"), V::s("nil"), V::s("2020-02-29"), V::s("2020-02-29 23:59:59 +0530"),
        // texts that the *template* date parser understands but that are not in the canonical date form: as data they are strings
        V::s("today"), V::s("now"), V::s("01 March 2022"), V::s("24 Dec 1999"), V::s("13 Jun 2016 12:00:00 +0000"),
        V::Date(2020, 2, 29), V::DateTime("2020-02-29 23:59:59 +0530".into()), V::DateTime("1999-12-31 23:59:59.005 -0330".into()),
    ]
}

/// level(1) = leaves; level(n) = level(n-1) + arrays of length 0..2 and objects with 0..2 keys over level(n-1)
fn level_size(n: u32, l1: u64) -> u64 {
    if n == 1 {
        return l1;
    }
    let p = level_size(n - 1, l1);
    // leaves of the previous level + arrays (1 + p + p^2) + objects (1 + 2p + p^2)
    p + (1 + p + p * p) + (1 + 2 * p + p * p)
}

fn unrank(idx: u64, n: u32, lv: &[V]) -> V {
    if n == 1 {
        return lv[idx as usize].clone();
    }
    let p = level_size(n - 1, lv.len() as u64);
    let mut i = idx;
    if i < p {
        return unrank(i, n - 1, lv);
    }
    i -= p;
    let arrays = 1 + p + p * p;
    if i < arrays {
        if i == 0 {
            return V::Arr(vec![]);
        }
        i -= 1;
        if i < p {
            return V::Arr(vec![unrank(i, n - 1, lv)]);
        }
        i -= p;
        return V::Arr(vec![unrank(i / p, n - 1, lv), unrank(i % p, n - 1, lv)]);
    }
    i -= arrays;
    if i == 0 {
        return V::Obj(vec![]);
    }
    i -= 1;
    if i < 2 * p {
        let key = if i < p { "k" } else { "j" };
        return V::Obj(vec![(key.into(), unrank(i % p, n - 1, lv))]);
    }
    i -= 2 * p;
    V::Obj(vec![("k".into(), unrank(i / p, n - 1, lv)), ("j".into(), unrank(i % p, n - 1, lv))])
}

fn has_multikey(v: &V) -> bool {
    match v {
        V::Obj(o) => o.len() > 1 || o.iter().any(|(_, x)| has_multikey(x)),
        V::Arr(a) => a.iter().any(has_multikey),
        _ => false,
    }
}

fn looks_like_date(v: &V) -> bool {
    match v {
        // the canonical forms `YYYY-MM-DD[ ...]` only: those are read back as dates (tolerated, 10.5); the friendlier
        // spellings the template-side parser accepts are plain strings on this path
        V::Str(s) => {
            let b = s.as_bytes();
            b.len() >= 10 && b[..4].iter().all(u8::is_ascii_digit) && b[4] == b'-' && b[5..7].iter().all(u8::is_ascii_digit) && b[7] == b'-' && b[8..10].iter().all(u8::is_ascii_digit)
        }
        V::Arr(a) => a.iter().any(looks_like_date),
        V::Obj(o) => o.iter().any(|(_, x)| looks_like_date(x)),
        _ => false,
    }
}

fn contains_kind(v: &V, f: &dyn Fn(&V) -> bool) -> bool {
    if f(v) {
        return true;
    }
    match v {
        V::Arr(a) => a.iter().any(|x| contains_kind(x, f)),
        V::Obj(o) => o.iter().any(|(_, x)| contains_kind(x, f)),
        _ => false,
    }
}

/// everything a template or filter can ask of a value
fn observe(v: &dyn ValueView, with_text: bool) -> String {
    observe_d(v, with_text, 2)
}

fn observe_d(v: &dyn ValueView, with_text: bool, depth: u32) -> String {
    let mut s = format!(
        "type={} truthy={} default={} empty={} blank={} scalar={} array={} object={} state={} nil={}",
        v.type_name(),
        v.query_state(State::Truthy),
        v.query_state(State::DefaultValue),
        v.query_state(State::Empty),
        v.query_state(State::Blank),
        v.is_scalar(),
        v.is_array(),
        v.is_object(),
        v.is_state(),
        v.is_nil()
    );
    if let Some(a) = v.as_array() {
        s.push_str(&format!(" size={}", a.size()));
    }
    if let Some(o) = v.as_object() {
        let mut keys: Vec<String> = o.keys().map(|k| k.to_string()).collect();
        keys.sort();
        s.push_str(&format!(" size={} keys={keys:?}", o.size()));
        if depth > 0 {
            for k in &keys {
                if let Some(x) = o.get(k) {
                    s.push_str(&format!(" [{k}: {}]", observe_d(x, false, depth - 1)));
                }
            }
        }
    }
    if let (Some(a), true) = (v.as_array(), depth > 0) {
        for (i, x) in a.values().enumerate() {
            s.push_str(&format!(" [{i}: {}]", observe_d(x, false, depth - 1)));
        }
    }
    if let Some(sc) = v.as_scalar() {
        s.push_str(&format!(" int={:?} float={:?} bool={:?}", sc.to_integer(), sc.to_float().map(|f| f.to_bits()), sc.to_bool()));
    }
    if with_text {
        s.push_str(&format!(" render={:?} source={:?} kstr={:?}", v.render().to_string(), v.source().to_string(), v.to_kstr().as_str()));
    }
    s.push_str(&format!(" dump={}", crate::cfgs::dump_view(v)));
    s
}

fn views(report: &Report, depth: u32) {
    let lv = leaves();
    let total = level_size(depth, lv.len() as u64);
    let name = format!("views/depth<={depth}");
    let nontriv = AtomicU64::new(0);
    let skipped = AtomicU64::new(0);
    par_range(
        report,
        &name,
        total,
        |i| {
            let d = unrank(i, depth, &lv);
            report.eval();
            let r = guard(|| {
                let v = d.to_liquid();
                let with_text = !has_multikey(&d);
                let base = observe(&v, with_text);
                let mut out: Vec<(&'static str, String, bool)> = Vec::new();
                let eqv = |x: &dyn ValueView| ValueViewCmp::new(x) == ValueViewCmp::new(&v) && ValueViewCmp::new(&v) == ValueViewCmp::new(x);
                out.push(("as_view", observe(v.as_view(), with_text), eqv(v.as_view())));
                let tv = v.to_value();
                out.push(("to_value", observe(&tv, with_text), eqv(&tv)));
                let co = ValueCow::Owned(v.clone());
                out.push(("ValueCow::Owned", observe(&co, with_text), eqv(&co)));
                let cb = ValueCow::Borrowed(&v);
                out.push(("ValueCow::Borrowed", observe(&cb, with_text), eqv(&cb)));
                let cio = cb.clone().into_owned();
                out.push(("ValueCow::into_owned", observe(&cio, with_text), eqv(&cio)));
                let sv = Some(v.clone());
                out.push(("Some(v)", observe(&sv, with_text), eqv(&sv)));
                let rr = &&v;
                out.push(("&&v", observe(rr, with_text), eqv(rr)));
                if let Some(sc) = v.as_scalar() {
                    out.push(("as_scalar", observe(&sc, with_text), eqv(&sc)));
                    let owned = sc.clone().into_owned();
                    out.push(("Scalar::into_owned", observe(&owned, with_text), eqv(&owned)));
                }
                // the native Rust types that implement the view directly
                match &d {
                    V::Int(i) => out.push(("i64", observe(i, with_text), eqv(i))),
                    V::Float(f) => out.push(("f64", observe(f, with_text), eqv(f))),
                    V::Bool(b) => out.push(("bool", observe(b, with_text), eqv(b))),
                    V::Str(st) => {
                        let r: &str = st.as_str();
                        out.push(("&str", observe(&r, with_text), eqv(&r)));
                        out.push(("String", observe(st, with_text), eqv(st)));
                        let k = liquid_core::model::KString::from_ref(st);
                        out.push(("KString", observe(&k, with_text), eqv(&k)));
                        let kc = liquid_core::model::KStringCow::from_ref(st);
                        out.push(("KStringCow", observe(&kc, with_text), eqv(&kc)));
                        let o = Some(st.clone());
                        out.push(("Option<String>", observe(&o, with_text), eqv(&o)));
                    }
                    V::Arr(a) => {
                        // a Vec of native strings / integers where the array is homogeneous
                        if !a.is_empty() && a.iter().all(|x| matches!(x, V::Str(_))) {
                            let vs: Vec<String> = a.iter().map(|x| if let V::Str(s) = x { s.clone() } else { String::new() }).collect();
                            out.push(("Vec<String>", observe(&vs, with_text), eqv(&vs)));
                        }
                        if !a.is_empty() && a.iter().all(|x| matches!(x, V::Int(_))) {
                            let vs: Vec<i64> = a.iter().map(|x| if let V::Int(i) = x { *i } else { 0 }).collect();
                            out.push(("Vec<i64>", observe(&vs, with_text), eqv(&vs)));
                        }
                    }
                    V::Obj(o) => {
                        if !o.is_empty() && o.iter().all(|(_, x)| matches!(x, V::Str(_))) {
                            let m: std::collections::HashMap<String, String> = o.iter().map(|(k, x)| (k.clone(), if let V::Str(s) = x { s.clone() } else { String::new() })).collect();
                            out.push(("HashMap<String, String>", observe(&m, with_text), eqv(&m)));
                        }
                    }
                    _ => {}
                }
                // serde through liquid's own serializer / deserializer
                // (serde has no date type: a date crosses `Serialize` as its display string, so
                //  values holding real dates are compared through from_value::<Value> only)
                let has_dates = contains_kind(&d, &|x| matches!(x, V::Date(..) | V::DateTime(_)));
                if !has_dates {
                    match to_value(&v) {
                        Ok(x) => out.push(("to_value(&v)", observe(&x, with_text), eqv(&x))),
                        Err(e) => out.push(("to_value(&v)", format!("ERR {e}"), false)),
                    }
                }
                let stateful = contains_kind(&d, &|x| matches!(x, V::Empty | V::Blank));
                if !stateful && !looks_like_date(&d) {
                    match from_value::<Value>(&v) {
                        Ok(x) => {
                            // Liquid -> serde -> Liquid: dates travel as strings and are read back as dates
                            out.push(("from_value::<Value>", observe(&x, with_text), eqv(&x)));
                        }
                        Err(e) => out.push(("from_value::<Value>", format!("ERR {e}"), false)),
                    }
                }
                if let (Value::Object(o), false) = (&v, has_dates) {
                    match to_object(o) {
                        Ok(x) => out.push(("to_object", observe(&x, with_text), eqv(&x))),
                        Err(e) => out.push(("to_object", format!("ERR {e}"), false)),
                    }
                }
                // JSON round trip (strings that look like dates are read as dates by design: excluded)
                let mut json_skipped = true;
                if !looks_like_date(&d) && !contains_kind(&d, &|x| matches!(x, V::Float(f) if !f.is_finite())) {
                    if let Ok(j) = serde_json::to_value(&v) {
                        json_skipped = false;
                        match serde_json::from_value::<Value>(j.clone()) {
                            Ok(x) => out.push(("serde_json round trip", observe(&x, with_text), eqv(&x))),
                            Err(e) => out.push(("serde_json round trip", format!("ERR {e}"), false)),
                        }
                        // Liquid value -> serde_json::Value through liquid's deserializer must equal serde's own view
                        match from_value::<serde_json::Value>(&v) {
                            Ok(j2) => {
                                if j2 != j {
                                    out.push(("from_value::<serde_json::Value>", format!("json {j2} but serde_json::to_value gives {j}"), false));
                                }
                            }
                            Err(e) => out.push(("from_value::<serde_json::Value>", format!("ERR {e}"), false)),
                        }
                    }
                }
                (base, out, json_skipped)
            });
            let w = || json!({"kind":"views","value":d.to_json()});
            match r {
                Err(pi) => report.violation(&format!("C12|{}", pi.sig()), i, w(), pi.describe()),
                Ok((base, out, json_skipped)) => {
                    if json_skipped {
                        skipped.fetch_add(1, Ordering::Relaxed);
                    }
                    nontriv.fetch_add(out.len() as u64, Ordering::Relaxed);
                    report.evals(out.len() as u64);
                    if i % 331 == 0 {
                        report.outcome(&base);
                    }
                    for (view, obs, eq) in out {
                        if obs != base || !eq {
                            // Date/DateTime through the JSON text form come back identical by design; anything else is a disagreement
                            let kinds = special_kinds(&d);
                            let mut wj = w();
                            wj["view"] = json!(view);
                            wj["original"] = json!(base);
                            wj["through_view"] = json!(obs);
                            wj["equal_both_ways"] = json!(eq);
                            report.violation(&format!("C12|view-disagrees|{view}|{kinds}"), i, wj, format!("{view} of {}: {obs} (== both ways: {eq}); original {base}", d.to_json()));
                        }
                    }
                }
            }
        },
        |i| json!({"kind":"views","value":unrank(i, depth, &lv).to_json()}),
    );
    report.nontrivial.fetch_add(nontriv.load(Ordering::Relaxed), Ordering::Relaxed);
    report.sample(json!({"family": name, "value": unrank(total - 12345 % total, depth, &lv).to_json(), "views": ["as_view","to_value","ValueCow::Owned","ValueCow::Borrowed","Some(v)","to_value(&v)","from_value::<Value>","to_object","serde_json round trip"]}));
    report.family(FamilyStat { name, cases: total, nontrivial: nontriv.load(Ordering::Relaxed), skipped: skipped.load(Ordering::Relaxed), note: format!("leaves={} arrays 0..2, objects 0..2 keys; skipped = JSON round trip not applicable (date-looking strings, non-finite floats)", lv.len()) });
}

/// the "special" leaf kinds present in a datum, for signatures
fn special_kinds(v: &V) -> String {
    let mut k: Vec<&str> = Vec::new();
    let tests: [(&str, &dyn Fn(&V) -> bool); 7] = [
        ("numeric-string", &|x| matches!(x, V::Str(s) if s.parse::<f64>().is_ok())),
        ("boolean-string", &|x| matches!(x, V::Str(s) if s == "true" || s == "false")),
        ("date-string", &|x| looks_like_date(x) && matches!(x, V::Str(_))),
        ("date", &|x| matches!(x, V::Date(..) | V::DateTime(_))),
        ("state", &|x| matches!(x, V::Empty | V::Blank)),
        ("nil", &|x| matches!(x, V::Nil)),
        ("extreme-number", &|x| matches!(x, V::Int(i64::MAX) | V::Int(i64::MIN)) || matches!(x, V::Float(f) if f.abs() > 1e100)),
    ];
    for (name, t) in tests {
        if contains_kind(v, t) {
            k.push(name);
        }
    }
    if k.is_empty() {
        "plain".into()
    } else {
        k.join("+")
    }
}

/// kind of the smallest interesting part of a datum
#[allow(dead_code)]
pub fn kind_path(v: &V) -> String {
    match v {
        V::Arr(a) => a.last().map(|x| format!("array/{}", kind_path(x))).unwrap_or("array".into()),
        V::Obj(o) => o.last().map(|(_, x)| format!("object/{}", kind_path(x))).unwrap_or("object".into()),
        V::Str(s) => {
            if s.parse::<f64>().is_ok() {
                "numeric-string".into()
            } else if s == "true" || s == "false" {
                "boolean-string".into()
            } else {
                "str".into()
            }
        }
        other => other.kind().to_string(),
    }
}

// ------------------------------------------------------------------ derive vs serde

#[derive(ObjectView, ValueView, serde::Serialize, serde::Deserialize, Debug, Clone, PartialEq)]
struct Leafs {
    i: i64,
    f: f64,
    b: bool,
    s: String,
}

#[derive(ObjectView, ValueView, serde::Serialize, serde::Deserialize, Debug, Clone, PartialEq)]
struct WithOpt {
    o: Option<i64>,
    t: Option<String>,
}

#[derive(ObjectView, ValueView, serde::Serialize, serde::Deserialize, Debug, Clone, PartialEq)]
struct WithVec {
    v: Vec<i64>,
    w: Vec<String>,
}

#[derive(ObjectView, ValueView, serde::Serialize, serde::Deserialize, Debug, Clone, PartialEq)]
struct Nested {
    inner: Leafs,
    list: Vec<Leafs>,
    opt: Option<WithOpt>,
    single: Single,
}

#[derive(ObjectView, ValueView, serde::Serialize, serde::Deserialize, Debug, Clone, PartialEq)]
struct WithMap {
    m: BTreeMap<String, i64>,
    h: HashMap<String, String>,
}

#[derive(ObjectView, ValueView, serde::Serialize, serde::Deserialize, Debug, Clone, PartialEq)]
struct Single {
    size: i64,
}

#[derive(serde::Serialize, serde::Deserialize, Debug, Clone, PartialEq)]
struct Newtype(char);
#[derive(serde::Serialize, serde::Deserialize, Debug, Clone, PartialEq)]
struct UnitStruct;
#[derive(serde::Serialize, serde::Deserialize, Debug, Clone, PartialEq)]
struct WithChar {
    c: char,
    s: String,
    n: Newtype,
}

/// No fields at all: the only derived object whose empty / blank / default answers are `true`.
#[derive(ObjectView, ValueView, serde::Serialize, serde::Deserialize, Debug, Clone, PartialEq)]
struct Empty {}

/// The same shapes through the `liquid_core` spelling of the derives (separate code in the macro crate).
#[derive(liquid_core::ObjectView, liquid_core::ValueView, serde::Serialize, serde::Deserialize, Debug, Clone, PartialEq)]
struct CoreLeafs {
    i: i64,
    f: f64,
    b: bool,
    s: String,
}
#[derive(liquid_core::ObjectView, liquid_core::ValueView, serde::Serialize, serde::Deserialize, Debug, Clone, PartialEq)]
struct CoreNested {
    inner: CoreLeafs,
    list: Vec<CoreLeafs>,
    opt: Option<i64>,
    size: i64,
}
#[derive(liquid_core::ObjectView, liquid_core::ValueView, serde::Serialize, serde::Deserialize, Debug, Clone, PartialEq)]
struct CoreEmpty {}

#[derive(serde::Serialize, serde::Deserialize, Debug, Clone, PartialEq)]
enum External {
    Unit,
    New(i64),
    Tuple(i64, String),
    Struct { a: i64 },
}
#[derive(serde::Serialize, serde::Deserialize, Debug, Clone, PartialEq)]
#[serde(tag = "t")]
enum Internal {
    Unit,
    Struct { a: i64 },
}
#[derive(serde::Serialize, serde::Deserialize, Debug, Clone, PartialEq)]
#[serde(tag = "t", content = "c")]
enum Adjacent {
    Unit,
    New(i64),
    Struct { a: String },
}
#[derive(serde::Serialize, serde::Deserialize, Debug, Clone, PartialEq)]
#[serde(untagged)]
enum Untagged {
    I(i64),
    S(String),
    L(Vec<i64>),
}

const PROBES: [&str; 14] = [
    "{{ i }}|{{ f }}|{{ b }}|{{ s }}|{{ s.size }}|{{ s | size }}",
    "{% if s == blank %}B{% endif %}{% if s == empty %}E{% endif %}{% if s %}T{% endif %}{% if b %}b{% endif %}{{ s | default: 'D' }}{{ b | default: 'Db' }}",
    "{% if i == f %}eq{% endif %}{% if i < f %}lt{% endif %}{{ i | plus: f }}{{ i | dump }}{{ f | dump }}{{ s | dump }}",
    "{{ o }}|{{ t }}|{% if o %}O{% else %}-{% endif %}{% if t %}T{% else %}-{% endif %}{{ o | dump }}{{ t | dump }}{{ o | default: 'none' }}",
    "{{ v | dump }}{{ w | dump }}{{ v.size }}{{ v.first }}{{ w.last }}{{ v | join: ',' }}{% for x in w %}[{{ x }}]{% endfor %}{% if v == empty %}E{% endif %}",
    "{{ inner.i }}{{ inner.s }}{{ inner | dump }}{{ list | dump }}{{ list.size }}{% for l in list %}<{{ l.s }}{{ l.b }}>{% endfor %}{{ opt | dump }}{{ opt.o }}",
    "{{ m | dump }}{{ h | dump }}{{ m.size }}{{ m.a }}{{ h.k }}{% if m == empty %}E{% endif %}{% if m contains 'a' %}C{% endif %}",
    "{{ size }}|{{ size | dump }}",
    "{% for p in single %}{{ p | dump }}{% endfor %}{{ single.size }}{{ single | dump }}",
    "{% assign x = inner %}{{ x.s }}{% assign y = list %}{{ y[0].i }}{{ y | map: 's' | dump }}{{ y | where: 'b' | dump }}",
    "{{ inner.nope }}",
    "{{ nope }}",
    "{% if inner %}T{% endif %}{% if list %}L{% endif %}{% if opt %}O{% else %}-{% endif %}{% if opt == nil %}N{% endif %}",
    "{{ m | size }}{{ h | size }}{{ v | size }}{{ w | size }}",
];

fn render_both<T: liquid::ObjectView + serde::Serialize>(report: &Report, parser: &liquid::Parser, templates: &[liquid::Template], idx: u64, label: &str, t: &T, n: &mut u64, nontriv: &mut u64) {
    let _ = parser;
    let obj = match to_object(t) {
        Ok(o) => o,
        Err(e) => {
            report.violation(&format!("C12|derive|to_object-failed|{label}"), idx, json!({"kind":"derive","type":label}), e.to_string());
            return;
        }
    };
    // the derived view as a value agrees with the converted object
    let a = observe(t.as_value(), false);
    let b = observe(&obj, false);
    if a != b {
        report.violation(&format!("C12|derive|value-view-differs-from-serde-object|{label}"), idx, json!({"kind":"derive","type":label,"derived":a,"serde":b}), format!("derived: {a}; serde: {b}"));
    }
    // ... and so does the owned value built from the view (`to_value`), the form `assign` stores
    match guard(|| observe(&t.as_value().to_value(), false)) {
        Ok(c) if c != b => report.violation(&format!("C12|derive|to_value-differs-from-serde-object|{label}"), idx, json!({"kind":"derive","type":label,"to_value":c,"serde":b}), format!("to_value: {c}; serde: {b}")),
        Ok(_) => {}
        Err(p) => report.violation(&format!("C12|derive|{}", p.sig()), idx, json!({"kind":"derive","type":label}), p.describe()),
    }
    for (pi, tmpl) in templates.iter().enumerate() {
        *n += 1;
        report.eval();
        let x = guard(|| tmpl.render(t).map_err(|e| crate::cfgs::first_line(&e.to_string())));
        let y = guard(|| tmpl.render(&obj).map_err(|e| crate::cfgs::first_line(&e.to_string())));
        match (x, y) {
            (Ok(x), Ok(y)) => {
                let same = match (&x, &y) {
                    (Ok(p), Ok(q)) => p == q,
                    (Err(_), Err(_)) => true,
                    _ => false,
                };
                if x.as_ref().map(|s| !s.is_empty()).unwrap_or(false) {
                    *nontriv += 1;
                }
                if !same {
                    report.violation(
                        &format!("C12|derive|template-output-differs|{label}"),
                        idx,
                        json!({"kind":"derive","type":label,"template":PROBES[pi],"value":serde_json::to_value(t).ok(),"derived":format!("{x:?}"),"serde":format!("{y:?}")}),
                        format!("template {:?}: derived struct gives {x:?}, serde-converted object gives {y:?}", PROBES[pi]),
                    );
                }
            }
            (Err(pi2), _) | (_, Err(pi2)) => report.violation(&format!("C12|derive|{}", pi2.sig()), idx, json!({"kind":"derive","type":label,"template":PROBES[pi]}), pi2.describe()),
        }
    }
}

fn derive_family(report: &Report) {
    let parser = crate::cfgs::parser(crate::cfgs::Config::Stdlib);
    let templates: Vec<liquid::Template> = PROBES.iter().map(|p| parser.parse(p).expect("probe parses")).collect();
    let ints = [0i64, -3, i64::MAX];
    let floats = [0.0f64, 0.5, -2.0];
    let strs = ["", " ", "x", "é", "10", "\u{a0}\u{2003}"];
    let mut n = 0u64;
    let mut nontriv = 0u64;
    let mut idx = 0u64;
    let mut leafs = Vec::new();
    for i in ints {
        for f in floats {
            for b in [true, false] {
                for s in strs {
                    leafs.push(Leafs { i, f, b, s: s.to_string() });
                }
            }
        }
    }
    for l in &leafs {
        idx += 1;
        render_both(report, &parser, &templates, idx, "Leafs", l, &mut n, &mut nontriv);
        roundtrip(report, idx, "Leafs", l);
    }
    for o in [None, Some(0), Some(-1)] {
        for t in [None, Some(String::new()), Some("t".to_string())] {
            idx += 1;
            let w = WithOpt { o, t };
            render_both(report, &parser, &templates, idx, "WithOpt", &w, &mut n, &mut nontriv);
            roundtrip(report, idx, "WithOpt", &w);
        }
    }
    for v in [vec![], vec![1], vec![2, 1]] {
        for w in [vec![], vec!["a".to_string()], vec!["".to_string(), "é".to_string()]] {
            idx += 1;
            let x = WithVec { v: v.clone(), w };
            render_both(report, &parser, &templates, idx, "WithVec", &x, &mut n, &mut nontriv);
            roundtrip(report, idx, "WithVec", &x);
        }
    }
    for (k, inner) in leafs.iter().enumerate().step_by(7) {
        for list in [vec![], vec![leafs[k % 5].clone()], vec![leafs[1].clone(), leafs[(k + 3) % leafs.len()].clone()]] {
            for opt in [None, Some(WithOpt { o: None, t: Some("z".into()) })] {
                idx += 1;
                let x = Nested { inner: inner.clone(), list: list.clone(), opt, single: Single { size: k as i64 } };
                render_both(report, &parser, &templates, idx, "Nested", &x, &mut n, &mut nontriv);
                roundtrip(report, idx, "Nested", &x);
            }
        }
    }
    for m in [vec![], vec![("a", 1)], vec![("a", 1), ("b", 2)]] {
        for h in [vec![], vec![("k", "v")]] {
            idx += 1;
            let x = WithMap { m: m.iter().map(|(k, v)| (k.to_string(), *v)).collect(), h: h.iter().map(|(k, v)| (k.to_string(), v.to_string())).collect() };
            render_both(report, &parser, &templates, idx, "WithMap", &x, &mut n, &mut nontriv);
            roundtrip(report, idx, "WithMap", &x);
        }
    }
    for s in [0, 7] {
        idx += 1;
        let x = Single { size: s };
        render_both(report, &parser, &templates, idx, "Single", &x, &mut n, &mut nontriv);
        roundtrip(report, idx, "Single", &x);
    }
    idx += 1;
    render_both(report, &parser, &templates, idx, "Empty", &Empty {}, &mut n, &mut nontriv);
    roundtrip(report, idx, "Empty", &Empty {});
    idx += 1;
    render_both(report, &parser, &templates, idx, "CoreEmpty", &CoreEmpty {}, &mut n, &mut nontriv);
    roundtrip(report, idx, "CoreEmpty", &CoreEmpty {});
    for (k, l) in leafs.iter().enumerate() {
        idx += 1;
        let c = CoreLeafs { i: l.i, f: l.f, b: l.b, s: l.s.clone() };
        render_both(report, &parser, &templates, idx, "CoreLeafs", &c, &mut n, &mut nontriv);
        roundtrip(report, idx, "CoreLeafs", &c);
        if k % 7 == 0 {
            for list in [vec![], vec![c.clone()], vec![c.clone(), CoreLeafs { i: -1, f: 0.5, b: false, s: "".into() }]] {
                for opt in [None, Some(k as i64)] {
                    idx += 1;
                    let x = CoreNested { inner: c.clone(), list: list.clone(), opt, size: k as i64 };
                    render_both(report, &parser, &templates, idx, "CoreNested", &x, &mut n, &mut nontriv);
                    roundtrip(report, idx, "CoreNested", &x);
                }
            }
        }
    }
    // enums in the four serde shapes, tuples, options, maps: Rust -> Liquid -> Rust
    for e in [External::Unit, External::New(3), External::Tuple(1, "t".into()), External::Struct { a: -1 }] {
        idx += 1;
        roundtrip(report, idx, "External", &e);
    }
    for e in [Internal::Unit, Internal::Struct { a: 2 }] {
        idx += 1;
        roundtrip(report, idx, "Internal", &e);
    }
    for e in [Adjacent::Unit, Adjacent::New(5), Adjacent::Struct { a: "10".into() }] {
        idx += 1;
        roundtrip(report, idx, "Adjacent", &e);
    }
    for e in [Untagged::I(4), Untagged::S("s".into()), Untagged::S("10".into()), Untagged::L(vec![1, 2])] {
        idx += 1;
        roundtrip(report, idx, "Untagged", &e);
    }
    idx += 1;
    roundtrip(report, idx, "tuple", &(1i64, "a".to_string(), Some(2.5f64), None::<bool>));
    idx += 1;
    roundtrip(report, idx, "vec-of-options", &vec![Some(1i64), None, Some(3)]);
    idx += 1;
    roundtrip(report, idx, "map-of-vecs", &BTreeMap::from([("k".to_string(), vec![1i64, 2]), ("j".to_string(), vec![])]));
    idx += 1;
    roundtrip(report, idx, "string-looking-like-number", &"10".to_string());
    idx += 1;
    roundtrip(report, idx, "string-looking-like-bool", &"true".to_string());
    // every leaf kind of the serde data model, alone and inside each container shape; text leaves with 1-, 2-, 3-
    // and 4-byte characters (a `char` is one character, not one byte)
    for c in ['a', '0', ' ', 'é', 'ß', '語', '\u{2003}', '👍', '\u{10FFFF}'] {
        idx += 1;
        roundtrip(report, idx, "char", &c);
        roundtrip(report, idx, "option-char", &Some(c));
        roundtrip(report, idx, "vec-char", &vec![c, 'x', c]);
        roundtrip(report, idx, "tuple-char-string", &(c, c.to_string(), format!("{c}{c}")));
        roundtrip(report, idx, "map-of-char", &BTreeMap::from([("k".to_string(), c)]));
        roundtrip(report, idx, "struct-with-char", &WithChar { c, s: c.to_string(), n: Newtype(c) });
    }
    idx += 1;
    // Some(x) for every falsy / empty / default payload: "present" must not be decided by the payload's truthiness
    for b in [false, true] {
        idx += 1;
        roundtrip(report, idx, "option-bool", &Some(b));
        idx += 1;
        roundtrip(report, idx, "vec-option-bool", &vec![Some(b), None, Some(!b)]);
        idx += 1;
        roundtrip(report, idx, "tuple-option-bool", &(Some(b), 1i64, None::<bool>));
        idx += 1;
        roundtrip(report, idx, "map-option-bool", &BTreeMap::from([("k".to_string(), Some(b)), ("n".to_string(), None)]));
        idx += 1;
        roundtrip(report, idx, "struct-option-bool", &WithOptBool { flag: Some(b), other: None, n: 1 });
        idx += 1;
        roundtrip(report, idx, "option-option-bool", &vec![Some(Some(b))]);
    }
    idx += 1;
    roundtrip(report, idx, "option-zero-int", &(Some(0i64), Some(0u8), Some(-0i32)));
    idx += 1;
    roundtrip(report, idx, "option-zero-float", &(Some(0.0f64), Some(0.5f64)));
    idx += 1;
    roundtrip(report, idx, "option-empty-string", &(Some(String::new()), Some(" ".to_string())));
    idx += 1;
    roundtrip(report, idx, "option-empty-vec", &(Some(Vec::<i64>::new()), Some(vec![Vec::<bool>::new()])));
    idx += 1;
    roundtrip(report, idx, "option-empty-map", &Some(BTreeMap::<String, bool>::new()));
    idx += 1;
    roundtrip(report, idx, "option-map-of-false", &Some(BTreeMap::from([("k".to_string(), false)])));
    idx += 1;
    roundtrip(report, idx, "bare-false", &false);
    idx += 1;
    roundtrip(report, idx, "vec-bool", &vec![false, true, false]);
    roundtrip(report, idx, "unit", &());
    roundtrip(report, idx, "unit-struct", &UnitStruct);
    roundtrip(report, idx, "small-ints", &(-128i8, 255u8, -32768i16, 65535u16, i32::MIN, u32::MAX));
    roundtrip(report, idx, "f32", &(0.5f32, -2.25f32));
    roundtrip(report, idx, "nested-options", &vec![Some(Some(1i64)), Some(Some(2))]);
    roundtrip(report, idx, "empty-containers", &(Vec::<i64>::new(), BTreeMap::<String, i64>::new(), String::new()));
    report.nontrivial.fetch_add(nontriv, Ordering::Relaxed);
    report.sample(json!({"family": "derive vs serde", "type": "Nested", "templates": PROBES}));
    report.family(FamilyStat { name: "derive(ObjectView, ValueView) vs serde conversion".into(), cases: n, nontrivial: nontriv, skipped: 0, note: format!("{idx} instances of 6 derived structs + 4 enum shapes + tuples/options/maps x {} probing templates; Rust -> Liquid -> Rust round trips", PROBES.len()) });
}

#[derive(serde::Serialize, serde::Deserialize, PartialEq, Debug)]
struct WithOptBool {
    flag: Option<bool>,
    other: Option<bool>,
    n: i64,
}

fn roundtrip<T: serde::Serialize + serde::de::DeserializeOwned + PartialEq + std::fmt::Debug>(report: &Report, idx: u64, label: &str, t: &T) {
    report.eval();
    let r = guard(|| {
        let v = to_value(t).map_err(|e| format!("to_value: {e}"))?;
        let back: T = from_value(&v).map_err(|e| format!("from_value: {e}"))?;
        // the Liquid value and serde_json's view of the same datum agree structurally
        let j = serde_json::to_value(t).map_err(|e| e.to_string())?;
        let via_json: Value = serde_json::from_value(j).map_err(|e| format!("json->Value: {e}"))?;
        Ok::<_, String>((back, crate::cfgs::dump_view(&v), crate::cfgs::dump_view(&via_json)))
    });
    let w = json!({"kind":"derive","type":label,"value":serde_json::to_value(t).ok()});
    match r {
        Err(pi) => report.violation(&format!("C12|roundtrip|{}", pi.sig()), idx, w, pi.describe()),
        Ok(Err(e)) => {
            // externally / adjacently tagged enums are refused on the way back ("expected enum"): a refusal, not an alteration
            if !(e.contains("expected enum") && (label == "External" || label == "Adjacent")) {
                report.violation(&format!("C12|roundtrip|conversion-failed|{label}"), idx, w, e)
            }
        }
        Ok(Ok((back, dv, dj))) => {
            if back != *t {
                report.violation(&format!("C12|roundtrip|rust-liquid-rust-changed|{label}"), idx, w.clone(), format!("{t:?} came back as {back:?}"));
            }
            if dv != dj && !label.contains("date") {
                report.violation(&format!("C12|roundtrip|to_value-differs-from-json-path|{label}"), idx, w, format!("to_value gives {dv}, via serde_json gives {dj}"));
            }
        }
    }
}


/// Self-equality must not depend on *which view of the same storage* is compared: a value compared
/// with itself in place, with a clone, with its owned conversion, through a borrowed or owned
/// ValueCow gives one and the same answer (true, or false for anything holding NaN).  An identity
/// short-cut (`ptr == ptr => equal`) breaks exactly this.
fn self_equality(report: &Report) {
    let mut vals: Vec<V> = leaves();
    for f in [f64::NAN, f64::INFINITY, f64::NEG_INFINITY, 0.0, -0.0] {
        vals.push(V::Float(f));
        vals.push(V::Arr(vec![V::Int(1), V::Float(f)]));
        vals.push(V::obj(&[("k", V::Float(f))]));
        vals.push(V::Arr(vec![V::obj(&[("k", V::Arr(vec![V::Float(f)]))])]));
    }
    let mut n = 0u64;
    for d in &vals {
        n += 1;
        report.eval();
        let r = guard(|| {
            let v = d.to_liquid();
            let c = v.clone();
            let tv = v.to_value();
            let cb = ValueCow::Borrowed(&v);
            let co = ValueCow::Owned(v.clone());
            vec![
                ("in place (ValueViewCmp of the same storage)", ValueViewCmp::new(&v) == ValueViewCmp::new(&v)),
                ("v == v", v == v),
                ("clone == v", c == v),
                ("to_value() == v", tv == v),
                ("ValueCow::Borrowed(&v) == v", cb == v),
                ("ValueCow::Borrowed(&v) == ValueCow::Borrowed(&v)", cb == ValueCow::Borrowed(&v)),
                ("ValueCow::Owned(clone) == v", co == v),
                ("as_view() vs &v", ValueViewCmp::new(v.as_view()) == ValueViewCmp::new(&v)),
            ]
        });
        match r {
            Err(pi) => report.violation(&format!("C12|self-equality|{}", pi.sig()), n, json!({"kind":"views","value":d.to_json()}), pi.describe()),
            Ok(rows) => {
                if rows.iter().any(|(_, e)| *e != rows[0].1) {
                    report.violation("C12|self-equality-depends-on-the-view", n, json!({"kind":"views","value":d.to_json(),"answers":rows.iter().map(|(l, e)| json!([l, e])).collect::<Vec<_>>()}), format!("{}: {:?}", d.to_json(), rows));
                }
            }
        }
    }
    report.nontrivial.fetch_add(n, Ordering::Relaxed);
    report.family(FamilyStat { name: "self-equality through every view".into(), cases: n, nontrivial: n, skipped: 0, note: "every leaf plus NaN / infinities / signed zeros alone and nested in arrays and objects; 8 ways of comparing a value with itself must agree".into() });
}

fn integers(report: &Report) {
    let mut n = 0u64;
    let big: [u64; 6] = [i64::MAX as u64 - 1, i64::MAX as u64, i64::MAX as u64 + 1, i64::MAX as u64 + 2, u64::MAX - 1, u64::MAX];
    let mut check = |label: &str, r: Result<Value, String>, exact: i128| {
        n += 1;
        report.eval();
        let ok = match &r {
            // a conversion may refuse; 128-bit integers are refused wholesale
            Err(_) => exact > i64::MAX as i128 || exact < i64::MIN as i128 || label.contains("128"),
            Ok(v) => match v.as_scalar() {
                Some(s) => {
                    if exact >= i64::MIN as i128 && exact <= i64::MAX as i128 {
                        s.type_name() == "whole number" && s.to_integer() == Some(exact as i64)
                    } else {
                        s.type_name() == "fractional number" && s.to_float() == Some(exact as f64)
                    }
                }
                None => false,
            },
        };
        if !ok {
            report.violation(&format!("C12|integer-range|{label}"), n, json!({"kind":"integer","path":label,"value":exact.to_string()}), format!("{exact} through {label}: {r:?}"));
        }
    };
    for b in big {
        check("to_value(&u64)", to_value(&b).map_err(|e| e.to_string()), b as i128);
        check("serde_json number -> Value", serde_json::from_str::<Value>(&b.to_string()).map_err(|e| e.to_string()), b as i128);
        check("to_value(&serde_json::Value)", to_value(&serde_json::json!(b)).map_err(|e| e.to_string()), b as i128);
        check("to_value(&u128)", to_value(&(b as u128)).map_err(|e| e.to_string()), b as i128);
        check("to_value(&Some(u64))", to_value(&Some(b)).map_err(|e| e.to_string()), b as i128);
        check("to_value(&vec![u64])[0]", to_value(&vec![b]).map_err(|e| e.to_string()).and_then(|v| v.as_array().and_then(|a| a.get(0).map(|x| x.to_value())).ok_or("not array".to_string())), b as i128);
    }
    for s in [i64::MIN, i64::MIN + 1, -1, 0, i64::MAX] {
        check("to_value(&i64)", to_value(&s).map_err(|e| e.to_string()), s as i128);
        check("serde_json number -> Value", serde_json::from_str::<Value>(&s.to_string()).map_err(|e| e.to_string()), s as i128);
        check("to_value(&i128)", to_value(&(s as i128)).map_err(|e| e.to_string()), s as i128);
    }
    // narrowing on the way out: never a different integer
    let mut narrow = |label: &str, got: Result<i128, String>, v: i64, fits: bool| {
        n += 1;
        report.eval();
        let ok = match got {
            Ok(x) => fits && x == v as i128,
            Err(_) => !fits,
        };
        if !ok {
            report.violation(&format!("C12|integer-narrowing|{label}"), n, json!({"kind":"integer","path":label,"value":v}), format!("from_value::<{label}>({v}) fits={fits}"));
        }
    };
    for v in [-1i64, 0, 127, 128, 255, 256, 65_535, 65_536, i32::MAX as i64, i32::MAX as i64 + 1, i64::MAX, i64::MIN] {
        let val = Value::scalar(v);
        narrow("u8", from_value::<u8>(&val).map(|x| x as i128).map_err(|e| e.to_string()), v, (0..=255).contains(&v));
        narrow("i8", from_value::<i8>(&val).map(|x| x as i128).map_err(|e| e.to_string()), v, (-128..=127).contains(&v));
        narrow("u16", from_value::<u16>(&val).map(|x| x as i128).map_err(|e| e.to_string()), v, (0..=65_535).contains(&v));
        narrow("i32", from_value::<i32>(&val).map(|x| x as i128).map_err(|e| e.to_string()), v, v >= i32::MIN as i64 && v <= i32::MAX as i64);
        narrow("u32", from_value::<u32>(&val).map(|x| x as i128).map_err(|e| e.to_string()), v, v >= 0 && v <= u32::MAX as i64);
        narrow("u64", from_value::<u64>(&val).map(|x| x as i128).map_err(|e| e.to_string()), v, v >= 0);
        narrow("i64", from_value::<i64>(&val).map(|x| x as i128).map_err(|e| e.to_string()), v, true);
    }
    // integer *keys* of Rust maps: a key becomes its decimal text (as serde_json does) or the
    // conversion refuses; never the text of another integer
    {
        use std::collections::BTreeMap;
        let mut keycheck = |label: &str, got: Result<Value, String>, want_keys: Vec<String>| {
            n += 1;
            report.eval();
            let ok = match &got {
                Err(_) => true,
                Ok(v) => match v.as_object() {
                    Some(o) => {
                        let mut ks: Vec<String> = o.keys().map(|k| k.to_string()).collect();
                        ks.sort();
                        let mut w = want_keys.clone();
                        w.sort();
                        ks == w
                    }
                    None => false,
                },
            };
            if !ok {
                report.violation(&format!("C12|integer-map-key|{label}"), n, json!({"kind":"integer","path":format!("to_value(&BTreeMap<{label}, _>)"),"value":want_keys}), format!("keys {want_keys:?} became {got:?}"));
            }
        };
        macro_rules! keys_of {
            ($t:ty, $vals:expr) => {{
                let vals: Vec<$t> = $vals;
                let m: BTreeMap<$t, i32> = vals.iter().map(|k| (*k, 1)).collect();
                let want: Vec<String> = m.keys().map(|k| k.to_string()).collect();
                keycheck(stringify!($t), to_value(&m).map_err(|e| e.to_string()), want.clone());
                keycheck(concat!(stringify!($t), " via to_object"), liquid_core::model::to_object(&m).map(Value::Object).map_err(|e| e.to_string()), want.clone());
                // one key at a time as well (a map of several keys hides collisions)
                for k in m.keys() {
                    let one: BTreeMap<$t, i32> = std::iter::once((*k, 1)).collect();
                    keycheck(stringify!($t), to_value(&one).map_err(|e| e.to_string()), vec![k.to_string()]);
                }
            }};
        }
        keys_of!(u64, vec![0, 1, i64::MAX as u64, i64::MAX as u64 + 1, u64::MAX - 1, u64::MAX]);
        keys_of!(i64, vec![i64::MIN, -1, 0, i64::MAX]);
        keys_of!(usize, vec![0, usize::MAX, (isize::MAX as usize) + 1]);
        keys_of!(u32, vec![0, u32::MAX, i32::MAX as u32 + 1]);
        keys_of!(i32, vec![i32::MIN, -1, i32::MAX]);
        keys_of!(u8, vec![0, 127, 128, 255]);
        keys_of!(i8, vec![-128, -1, 127]);
        keys_of!(u16, vec![0, 32_768, 65_535]);
        keys_of!(i16, vec![-32_768, 32_767]);
    }
    // the way back for integers that were carried as floats: a float value read into an integer
    // type is refused or is *exactly* that integer (as mathematics, not as a saturating cast)
    let mut from_float = |label: &str, got: Result<i128, String>, f: f64| {
        n += 1;
        report.eval();
        let ok = match got {
            Err(_) => true,
            Ok(x) => f.is_finite() && f.fract() == 0.0 && f.abs() < 1.0e38 && (f as i128) == x,
        };
        if !ok {
            report.violation(&format!("C12|float-to-integer|{label}"), n, json!({"kind":"integer","path":format!("from_value::<{label}>(float)"),"value":format!("{f:e}")}), format!("from_value::<{label}>({f:e}) = {got:?}: neither refused nor the same number"));
        }
    };
    let p63 = 9_223_372_036_854_775_808.0_f64;
    for f in [0.0, -0.0, 1.0, 1.5, -1.0, -1.5, 127.0, 128.0, 255.0, 256.0, -128.0, -129.0, 65_535.0, 65_536.0, 2_147_483_647.0, 2_147_483_648.0, -2_147_483_649.0, 4_294_967_295.0, 4_294_967_296.0, 9_007_199_254_740_992.0, 9_007_199_254_740_994.0, p63 - 1024.0, p63, p63 + 2048.0, -p63, -p63 - 2048.0, 2.0 * p63, 2.0 * p63 - 2048.0, 1.0e19, 1.0e300, f64::INFINITY, f64::NEG_INFINITY, f64::NAN] {
        let val = Value::scalar(f);
        from_float("u8", from_value::<u8>(&val).map(|x| x as i128).map_err(|e| e.to_string()), f);
        from_float("i8", from_value::<i8>(&val).map(|x| x as i128).map_err(|e| e.to_string()), f);
        from_float("u16", from_value::<u16>(&val).map(|x| x as i128).map_err(|e| e.to_string()), f);
        from_float("i16", from_value::<i16>(&val).map(|x| x as i128).map_err(|e| e.to_string()), f);
        from_float("u32", from_value::<u32>(&val).map(|x| x as i128).map_err(|e| e.to_string()), f);
        from_float("i32", from_value::<i32>(&val).map(|x| x as i128).map_err(|e| e.to_string()), f);
        from_float("u64", from_value::<u64>(&val).map(|x| x as i128).map_err(|e| e.to_string()), f);
        from_float("i64", from_value::<i64>(&val).map(|x| x as i128).map_err(|e| e.to_string()), f);
        from_float("usize", from_value::<usize>(&val).map(|x| x as i128).map_err(|e| e.to_string()), f);
        from_float("isize", from_value::<isize>(&val).map(|x| x as i128).map_err(|e| e.to_string()), f);
        from_float("Option<u64>", from_value::<Option<u64>>(&val).map(|x| x.map(|x| x as i128).unwrap_or(-1)).map_err(|e| e.to_string()), f);
        from_float("Vec<i64>[0]", from_value::<Vec<i64>>(&Value::Array(vec![val.clone()])).map(|x| x[0] as i128).map_err(|e| e.to_string()), f);
        #[derive(serde::Deserialize)]
        struct Wrap {
            n: u64,
            m: i64,
        }
        let mut o = liquid_core::Object::new();
        o.insert("n".into(), val.clone());
        o.insert("m".into(), val.clone());
        let r = from_value::<Wrap>(&Value::Object(o));
        from_float("struct{n:u64}", r.as_ref().map(|w| w.n as i128).map_err(|e| e.to_string()), f);
        from_float("struct{m:i64}", r.as_ref().map(|w| w.m as i128).map_err(|e| e.to_string()), f);
    }
    // out and back: Rust integer -> Liquid value -> Rust integer is the identity or refused at either step
    for b in big.iter().copied().chain([0u64, 1, 255, 1 << 53, (1 << 53) + 1]) {
        n += 1;
        report.eval();
        let back = to_value(&b).map_err(|e| e.to_string()).and_then(|v| from_value::<u64>(&v).map_err(|e| e.to_string()));
        if let Ok(x) = back {
            if x != b {
                report.violation("C12|integer-round-trip|u64", n, json!({"kind":"integer","path":"to_value(&u64) -> from_value::<u64>","value":b.to_string()}), format!("{b} came back as {x}"));
            }
        }
        let via_json = serde_json::from_str::<Value>(&b.to_string()).map_err(|e| e.to_string()).and_then(|v| from_value::<u64>(&v).map_err(|e| e.to_string()));
        if let Ok(x) = via_json {
            if x != b {
                report.violation("C12|integer-round-trip|json-u64", n, json!({"kind":"integer","path":"serde_json -> Value -> from_value::<u64>","value":b.to_string()}), format!("{b} came back as {x}"));
            }
        }
    }
    report.nontrivial.fetch_add(n, Ordering::Relaxed);
    report.family(FamilyStat { name: "integers across the u64/i64 boundaries".into(), cases: n, nontrivial: n, skipped: 0, note: "in: Err or the nearest double, never another integer; out: narrowing is exact or an error; floats read into integer types (10 types, Option, Vec, struct fields) are refused or exactly equal; u64 out-and-back is the identity or refused; integer map keys of 9 key types become their own decimal text or are refused".into() });
}

pub fn run(tier: Tier) -> i32 {
    let report = Report::new("C12", tier, "exploration");
    report.set_rule("every value of the recursive generator (23 leaves incl. dates, date-times, numeric-looking / boolean-looking / date-looking strings; arrays of length 0..2; objects with 0..2 keys) to depth D is observed through 10-13 views/conversions (type name, truthy/default/empty/blank, kind predicates, size/keys, scalar conversions, render/source/to_kstr where iteration order cannot show, structural dump, == both ways); instances of derived structs rendered through 14 probing templates both as the derived view and as its serde conversion; integers at the 64-bit boundaries; distinct by construction; non-trivial = one (datum, view) comparison");
    report.assume("strings that look like a date or date-time in the crate's own format are excluded from the JSON -> Liquid direction (reading them as dates is the documented purpose of the untagged scalar deserialiser)");
    views(&report, if tier.thorough() { 3 } else { 2 });
    if tier.thorough() {
        // a slice of depth 4 would be 10^11 values; depth 3 is the complete bound
    }
    derive_family(&report);
    integers(&report);
    self_equality(&report);
    report.finish()
}
