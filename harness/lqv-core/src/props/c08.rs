//! C08 — include shares the caller's scope; render isolates the partial.
//! Also provides the scenario generator reused by C19 (store policies).

use crate::ast::*;
use crate::cfgs::{self, Config, Outcome, Policy};
use crate::cmp;
use crate::progen::{instrument, number_literals, probes, Grammar, Wrap};
use crate::refl::{self, Partial};
use crate::report::{FamilyStat, Report, Tier};
use crate::run::par_range;
use crate::val::V;
use serde_json::json;
use std::collections::BTreeMap;
use std::sync::atomic::{AtomicU64, Ordering};

pub const NAMES: [&str; 2] = ["x", "y"];

fn wrap(tag: &str, mut body: Vec<Stmt>) -> Vec<Stmt> {
    let mut v = vec![text(&format!("({tag}"))];
    v.append(&mut body);
    v.push(text(")"));
    v
}

/// The partial library: (name, body or None for broken source text)
pub fn library() -> Vec<(&'static str, Option<Vec<Stmt>>)> {
    let pr = || probes(&NAMES);
    let mut assign = pr();
    assign.push(Stmt::Assign("x".into(), Expr::s("pa")));
    assign.extend(pr());
    let mut capture = vec![Stmt::Capture("y".into(), vec![text("cap")])];
    capture.extend(pr());
    vec![
        ("p_probe", Some(wrap("P", pr()))),
        // reads the pseudo-members the path finder answers one level down; as *top-level* names they are
        // ordinary names that nobody defined (whatever number of arguments the scope holds)
        ("p_pseudo", Some(wrap("S", probes(&["size", "first", "last"])))),
        // a name whose byte order and case-insensitive order differ from the others' (stores that keep names sorted)
        ("Q_upper", Some(wrap("Q", pr()))),
        ("p_assign", Some(wrap("A", assign))),
        ("p_capture", Some(wrap("C", capture))),
        ("p_incr", Some(wrap("I", vec![Stmt::Incr("c".into())]))),
        ("p_break", Some(wrap("B", vec![Stmt::Break, text("after")]))),
        ("p_cont", Some(wrap("K", vec![Stmt::Continue, text("after")]))),
        (
            "p_loopbreak",
            Some(wrap(
                "L",
                vec![for_(
                    "i",
                    Src::Range(Expr::int(1), Expr::int(3)),
                    vec![Stmt::Out(Expr::var("i")), if_(Cond::Bin(Expr::var("i"), Op::Eq, Expr::int(2)), vec![Stmt::Break], None)],
                )],
            )),
        ),
        ("p_cycle", Some(wrap("Y", vec![Stmt::Cycle(None, vec![Expr::s("a"), Expr::s("b")])]))),
        ("p_ifch", Some(wrap("H", vec![Stmt::IfChanged(vec![text("same")])]))),
        (
            "p_forloop",
            Some(wrap(
                "F",
                vec![
                    if_(
                        Cond::Truthy(Expr::var("forloop")),
                        vec![Stmt::Out(Expr::path("forloop", &["index"])), text("/"), Stmt::Out(Expr::path("forloop", &["length"]))],
                        Some(vec![text("-")]),
                    ),
                    // a rendered partial's loop object has no parent: the caller's loop must not show through
                    if_(
                        Cond::Truthy(Expr::path("forloop", &["parentloop"])),
                        vec![text("^"), Stmt::Out(Expr::path("forloop", &["parentloop", "index"]))],
                        Some(vec![text("~")]),
                    ),
                ],
            )),
        ),
        // a loop of the partial's own: under include its parent is the caller's loop (if any), under render it has none;
        // the same parsed loop runs nested in one place and outermost in another
        (
            "p_innerloop",
            Some(wrap(
                "J",
                vec![for_(
                    "j",
                    Src::Range(Expr::int(1), Expr::int(2)),
                    vec![
                        if_(Cond::Truthy(Expr::path("forloop", &["parentloop"])), vec![Stmt::Out(Expr::path("forloop", &["parentloop", "index"]))], Some(vec![text("-")])),
                        text("."),
                        Stmt::Out(Expr::var("j")),
                    ],
                )],
            )),
        ),
        ("p_err", Some(wrap("E", vec![Stmt::Out(Expr::var("undefined_var"))]))),
        ("n_inc", Some(wrap("N", {
            let mut v = vec![Stmt::Include { name: Expr::s("p_assign"), args: vec![] }];
            v.extend(pr());
            v
        }))),
        ("n_ren", Some(wrap("R", {
            let mut v = vec![Stmt::Render { name: Expr::s("p_assign"), form: RenderForm::Plain, args: vec![] }];
            v.extend(pr());
            v
        }))),
        ("nn", Some(wrap("NN", vec![Stmt::Include { name: Expr::s("n_ren"), args: vec![] }, Stmt::Render { name: Expr::s("n_inc"), form: RenderForm::Plain, args: vec![("y".into(), Expr::s("ny"))] }]))),
        // references to absent / broken partials on a path the partial never takes: using this partial is fine
        ("p_dead", Some(wrap("X", vec![
            if_(Cond::Truthy(Expr::Lit(V::Bool(false))), vec![Stmt::Include { name: Expr::s("missing"), args: vec![] }, Stmt::Render { name: Expr::s("broken"), form: RenderForm::Plain, args: vec![] }], None),
            for_("i", Src::Expr(Expr::var("nothing_here")), vec![Stmt::Include { name: Expr::s("missing"), args: vec![] }]),
        ]))),
        ("dot.liquid", Some(wrap("D", pr()))),
        ("broken", None),
        // "missing" is deliberately absent
    ]
}

pub fn library_sources() -> (Vec<(String, String)>, BTreeMap<String, Partial>) {
    let mut src = Vec::new();
    let mut map = BTreeMap::new();
    for (n, b) in library() {
        match b {
            Some(body) => {
                src.push((n.to_string(), print(&body)));
                map.insert(n.to_string(), Partial::Ok(body));
            }
            None => {
                src.push((n.to_string(), "{% if %}{{ !! }}".to_string()));
                map.insert(n.to_string(), Partial::Broken);
            }
        }
    }
    (src, map)
}

pub fn grammar(max_n: usize) -> Grammar {
    let all: Vec<&str> = library().iter().map(|(n, _)| *n).filter(|n| *n != "dot.liquid").chain(["missing"]).collect();
    let mut leaves = Vec::new();
    for p in &all {
        let name = Expr::s(p);
        leaves.push(Stmt::Include { name: name.clone(), args: vec![] });
        leaves.push(Stmt::Include { name: name.clone(), args: vec![("x".into(), Expr::s("?"))] });
        leaves.push(Stmt::Render { name: name.clone(), form: RenderForm::Plain, args: vec![] });
        leaves.push(Stmt::Render { name: name.clone(), form: RenderForm::Plain, args: vec![("x".into(), Expr::s("?"))] });
    }
    for p in ["p_probe", "p_assign", "p_capture", "p_break", "p_forloop", "missing"] {
        leaves.push(Stmt::Render { name: Expr::s(p), form: RenderForm::With(Expr::var("y"), "x".into()), args: vec![] });
    }
    for p in ["p_probe", "p_assign", "p_break", "p_cont", "p_forloop", "p_cycle", "p_ifch", "missing"] {
        leaves.push(Stmt::Render { name: Expr::s(p), form: RenderForm::For(Src::Expr(Expr::var("arr")), "x".into()), args: vec![] });
    }
    for p in ["p_probe", "p_forloop", "p_assign", "broken"] {
        leaves.push(Stmt::Render { name: Expr::s(p), form: RenderForm::For(Src::Range(Expr::int(1), Expr::int(2)), "y".into()), args: vec![("x".into(), Expr::s("?"))] });
    }
    // a partial stored as `dot.liquid`: render falls back to the extension, include does not
    leaves.push(Stmt::Render { name: Expr::s("dot"), form: RenderForm::Plain, args: vec![("x".into(), Expr::s("?"))] });
    leaves.push(Stmt::Include { name: Expr::s("dot"), args: vec![] });
    leaves.push(Stmt::Include { name: Expr::s("dot.liquid"), args: vec![] });
    for v in ["pn", "pm"] {
        leaves.push(Stmt::Include { name: Expr::var(v), args: vec![] });
        leaves.push(Stmt::Render { name: Expr::var(v), form: RenderForm::Plain, args: vec![] });
    }
    leaves.push(Stmt::Render { name: Expr::s("p_probe"), form: RenderForm::For(Src::Expr(Expr::var("nothing")), "x".into()), args: vec![] });
    // an explicit argument named like the for-as variable, or like `forloop`: the loop's own bindings win
    // (the partial gets its item and a truthful forloop)
    leaves.push(Stmt::Render { name: Expr::s("p_probe"), form: RenderForm::For(Src::Expr(Expr::var("arr")), "x".into()), args: vec![("x".into(), Expr::s("?")), ("y".into(), Expr::s("?"))] });
    leaves.push(Stmt::Render { name: Expr::s("p_forloop"), form: RenderForm::For(Src::Range(Expr::int(1), Expr::int(2)), "y".into()), args: vec![("forloop".into(), Expr::s("?"))] });
    leaves.push(Stmt::Render { name: Expr::s("p_pseudo"), form: RenderForm::Plain, args: vec![("x".into(), Expr::s("?")), ("y".into(), Expr::s("?"))] });
    leaves.push(Stmt::Render { name: Expr::s("p_pseudo"), form: RenderForm::With(Expr::var("y"), "x".into()), args: vec![] });
    leaves.push(Stmt::Include { name: Expr::s("p_pseudo"), args: vec![("x".into(), Expr::s("?"))] });
    // identity arguments (`x: x`): still a call-site snapshot that masks the caller's variable inside the partial
    for p in ["p_probe", "p_assign", "p_capture", "n_inc"] {
        leaves.push(Stmt::Include { name: Expr::s(p), args: vec![("x".into(), Expr::var("x"))] });
        leaves.push(Stmt::Include { name: Expr::s(p), args: vec![("y".into(), Expr::var("y"))] });
        leaves.push(Stmt::Render { name: Expr::s(p), form: RenderForm::Plain, args: vec![("x".into(), Expr::var("x"))] });
    }
    // arguments that read each other's names (swap): each is evaluated in the caller's scope, none sees a sibling
    leaves.push(Stmt::Include { name: Expr::s("p_probe"), args: vec![("x".into(), Expr::var("y")), ("y".into(), Expr::var("x"))] });
    leaves.push(Stmt::Render { name: Expr::s("p_probe"), form: RenderForm::Plain, args: vec![("x".into(), Expr::var("y")), ("y".into(), Expr::var("x"))] });
    leaves.push(Stmt::Render { name: Expr::s("p_probe"), form: RenderForm::Plain, args: vec![("y".into(), Expr::s("?")), ("x".into(), Expr::var("y"))] });
    leaves.push(Stmt::Render { name: Expr::s("p_probe"), form: RenderForm::With(Expr::var("y"), "x".into()), args: vec![("y".into(), Expr::var("x"))] });
    leaves.push(Stmt::Render { name: Expr::s("p_probe"), form: RenderForm::For(Src::Expr(Expr::var("arr")), "x".into()), args: vec![("y".into(), Expr::var("x"))] });
    // names that differ from an existing partial's only by surrounding whitespace name nothing
    leaves.push(Stmt::Include { name: Expr::s(" p_probe"), args: vec![] });
    leaves.push(Stmt::Render { name: Expr::s("p_probe "), form: RenderForm::Plain, args: vec![] });
    leaves.push(Stmt::Include { name: Expr::var("padded"), args: vec![] });
    // one tag instance, a different partial name at every execution (and per data object)
    leaves.push(for_("pv", Src::Expr(Expr::var("names")), vec![Stmt::Render { name: Expr::var("pv"), form: RenderForm::Plain, args: vec![("x".into(), Expr::var("pv"))] }]));
    leaves.push(for_("pv", Src::Expr(Expr::var("names")), vec![Stmt::Include { name: Expr::var("pv"), args: vec![] }]));
    // the partial's *name* is an expression of the caller: an argument (or with-as / for-as variable) spelled like the
    // variable that holds the name is visible only inside the partial and never takes part in choosing it
    leaves.push(Stmt::Include { name: Expr::var("pn"), args: vec![("pn".into(), Expr::s("p_probe"))] });
    leaves.push(Stmt::Include { name: Expr::var("pn"), args: vec![("pn".into(), Expr::s("missing")), ("x".into(), Expr::s("?"))] });
    leaves.push(Stmt::Render { name: Expr::var("pn"), form: RenderForm::Plain, args: vec![("pn".into(), Expr::s("p_probe"))] });
    leaves.push(Stmt::Render { name: Expr::var("pn"), form: RenderForm::With(Expr::s("p_probe"), "pn".into()), args: vec![] });
    leaves.push(Stmt::Render { name: Expr::var("pn"), form: RenderForm::For(Src::Expr(Expr::var("names")), "pn".into()), args: vec![] });
    leaves.push(Stmt::Assign("x".into(), Expr::s("?")));
    leaves.push(Stmt::Assign("y".into(), Expr::s("?")));
    leaves.push(Stmt::Incr("c".into()));
    // a counter whose name is also probed inside the partials: render must hide it, include shares it
    leaves.push(Stmt::Incr("x".into()));
    leaves.push(Stmt::Cycle(None, vec![Expr::s("a"), Expr::s("b")]));
    let compounds: Vec<Wrap> = vec![
        Box::new(|b| for_("x", Src::Range(Expr::int(1), Expr::int(2)), b)),
        Box::new(|b| for_("y", Src::Expr(Expr::var("arr")), b)),
        Box::new(|b| if_(Cond::Truthy(Expr::Lit(V::Bool(true))), b, None)),
        Box::new(|b| if_(Cond::Truthy(Expr::Lit(V::Bool(false))), b, None)),
        Box::new(|b| Stmt::Capture("y".into(), b)),
    ];
    Grammar::new(leaves, compounds, 3, max_n)
}

pub fn datas() -> Vec<V> {
    let common = |extra: Vec<(&str, V)>| {
        let mut v = vec![
            ("arr", V::Arr(vec![V::s("e1"), V::s("e2")])),
            ("pn", V::s("p_assign")),
            ("pm", V::s("missing")),
            ("nothing", V::Nil),
            ("padded", V::s("\n  p_cycle\n")),
        ];
        v.extend(extra);
        V::obj(&v)
    };
    vec![
        common(vec![("y", V::s("dy")), ("names", V::Arr(vec![V::s("p_probe"), V::s("p_cycle"), V::s("p_probe")]))]),
        common(vec![("x", V::s("dx")), ("y", V::s("dy")), ("names", V::Arr(vec![V::s("p_cycle"), V::s("p_forloop"), V::s("missing")]))]),
    ]
}

pub fn build_program(g: &Grammar, idx: u64, max_n: usize) -> (Vec<Stmt>, String) {
    let mut prog = g.unrank_upto(idx, max_n);
    let mut c = 0;
    number_literals(&mut prog, &mut c);
    let inst = instrument(&prog, &NAMES);
    let t = print(&inst);
    (inst, t)
}

fn family(report: &Report, max_n: usize) {
    let g = grammar(max_n);
    let total = g.count_upto(max_n);
    let (src, pmap) = library_sources();
    let parser = cfgs::build(Config::Stdlib, Policy::Eager, &src).expect("parser builds despite a broken partial");
    let datas = datas();
    let globals: Vec<liquid::Object> = datas.iter().map(|d| d.to_object()).collect();
    let name = format!("scenarios/N<={max_n}");
    let nontriv = AtomicU64::new(0);
    let errs = AtomicU64::new(0);
    let compared = AtomicU64::new(0);
    let skipped0 = report.skipped.load(Ordering::Relaxed);
    par_range(
        report,
        &name,
        total,
        |i| {
            let (inst, textp) = build_program(&g, i, max_n);
            let tmpl = match cfgs::parse_guarded(&parser, &textp) {
                Ok(Ok(t)) => t,
                Ok(Err(e)) => {
                    report.violation("C08|well-formed-program-rejected", i, cmp::witness(&textp, &datas[0], &src), e);
                    return;
                }
                Err(pi) => {
                    report.violation(&format!("C08|{}", pi.sig()), i, cmp::witness(&textp, &datas[0], &src), pi.describe());
                    return;
                }
            };
            for (di, d) in datas.iter().enumerate() {
                report.eval();
                let expected = refl::run_with(&inst, d, &pmap);
                let actual = match cfgs::render_guarded(&tmpl, &globals[di]) {
                    Ok(Ok(s)) => Outcome::Ok(s),
                    Ok(Err(e)) => Outcome::RenderErr(e),
                    Err(pi) => Outcome::Panic(pi.describe()),
                };
                if let Outcome::RenderErr(m) = &actual {
                    if m.trim().is_empty() {
                        report.violation("C08|error-without-message", i, cmp::witness(&textp, d, &src), "empty error message".into());
                    }
                }
                let class = if textp.contains("{% render") { if textp.contains("{% include") { "mixed" } else { "render" } } else { "include" };
                if cmp::check(report, "C08", class, i * 4 + di as u64, || cmp::witness(&textp, d, &src), &expected, &actual) {
                    compared.fetch_add(1, Ordering::Relaxed);
                    match &expected {
                        Ok(s) => {
                            if s.contains('(') {
                                nontriv.fetch_add(1, Ordering::Relaxed);
                            }
                            if i % 7 == 0 {
                                report.outcome(s);
                            }
                        }
                        Err(_) => {
                            errs.fetch_add(1, Ordering::Relaxed);
                        }
                    }
                }
            }
        },
        |i| cmp::witness(&build_program(&g, i, max_n).1, &datas[0], &src),
    );
    let (p, t) = build_program(&g, total - 42, max_n);
    report.sample(json!({"family": name, "template": t, "data": datas[1].to_json(), "expected": format!("{:?}", refl::run_with(&p, &datas[1], &pmap))}));
    let (p, t) = build_program(&g, total / 2, max_n);
    report.sample(json!({"family": name, "template": t, "expected": format!("{:?}", refl::run_with(&p, &datas[0], &pmap))}));
    report.states.fetch_add(total, Ordering::Relaxed);
    report.transitions.fetch_add(total * datas.len() as u64, Ordering::Relaxed);
    report.traces.fetch_add(compared.load(Ordering::Relaxed), Ordering::Relaxed);
    report.nontrivial.fetch_add(nontriv.load(Ordering::Relaxed), Ordering::Relaxed);
    report.family(FamilyStat {
        name,
        cases: total * datas.len() as u64,
        nontrivial: nontriv.load(Ordering::Relaxed),
        skipped: report.skipped.load(Ordering::Relaxed) - skipped0,
        note: format!("caller programs={} (leaves={} compounds={}) x data={}; partial library={} (+missing); predicted errors={}", total, g.leaves.len(), g.compounds.len(), datas.len(), library().len(), errs.load(Ordering::Relaxed)),
    });
}

pub fn run(tier: Tier) -> i32 {
    let report = Report::new("C08", tier, "model_checking");
    report.set_rule("every caller program with 1..N statement nodes over include/render invocations (literal and variable names, key:value, with-as, for-as over array/range/nil) of a 15-partial library (probing, assigning, capturing, incrementing, break/continue, cycle, ifchanged, forloop-printing, failing, nested to depth 3, broken) plus a missing partial, inside and outside for/if(true|false)/capture, instrumented with probes, on 2 data objects; states = programs, transitions = executions, traces_validated = executions compared with the reference interpreter; non-trivial = predicted output shows at least one partial body");
    report.assume("increment/decrement inside a rendered partial, break/continue at the top level of a render-for partial, and render-for over an empty collection naming a missing partial are unspecified (skipped)");
    family(&report, if tier.thorough() { 3 } else { 2 });
    report.finish()
}
