//! C09 — rendering is repeatable: no state survives from one render into another.
//! Exhaustive exploration of render histories on one shared parser.

use crate::cfgs::{self, Config, Outcome, Policy};
use crate::report::{FamilyStat, Report, Tier};
use crate::run::{par_range, seq_count, seq_decode};
use crate::val::V;
use serde_json::json;
use std::sync::atomic::{AtomicU64, Ordering};

pub struct TemplateSet {
    pub name: &'static str,
    pub partials: Vec<(String, String)>,
    pub templates: Vec<&'static str>,
    pub datas: Vec<V>,
}

const PROBE_V: &str = "{% if v %}{{ v }}{% else %}-{% endif %}";
const PROBE_W: &str = "{% if w %}{{ w }}{% else %}-{% endif %}";

pub fn sets() -> Vec<TemplateSet> {
    let p = |v: &[(&str, &str)]| v.iter().map(|(a, b)| (a.to_string(), b.to_string())).collect::<Vec<_>>();
    vec![
        TemplateSet {
            name: "registers: cycle/increment/ifchanged",
            partials: p(&[("st", "{% cycle 'a', 'b', 'c' %}{% increment n %}{% ifchanged %}x{% endifchanged %}")]),
            templates: vec![
                "{% cycle 'a', 'b', 'c' %}{% cycle 'a', 'b', 'c' %}|{% increment n %}{% increment n %}|{% ifchanged %}x{% endifchanged %}{% ifchanged %}x{% endifchanged %}",
                "{% cycle 'a', 'b', 'c' %}|{% decrement n %}|{% ifchanged %}x{% endifchanged %}|{% cycle g: 1, 2 %}",
                "{% include 'st' %}{% render 'st' %}{% include 'st' %}|{% for i in a %}{% cycle 'a', 'b', 'c' %}{% ifchanged %}{{ i }}{% endifchanged %}{% endfor %}",
            ],
            datas: vec![V::obj(&[("a", V::Arr(vec![V::Int(1), V::Int(1), V::Int(2)]))]), V::obj(&[("a", V::Arr(vec![V::Int(2)])), ("n", V::Int(40))])],
        },
        TemplateSet {
            name: "bindings: assign/capture",
            partials: p(&[("setter", "{% assign v = 'from-partial' %}{% capture w %}cw{% endcapture %}")]),
            templates: vec![
                "<P_V|P_W>{% assign v = d %}{% capture w %}c{{ d }}{% endcapture %}<P_V|P_W>",
                "<P_V|P_W>",
                "<P_V>{% include 'setter' %}<P_V|P_W>{% render 'setter' %}",
            ],
            datas: vec![V::obj(&[("d", V::s("d1"))]), V::obj(&[("d", V::s("d2")), ("w", V::s("dw"))])],
        },
        TemplateSet {
            name: "interrupts: break/continue, top-level break, error after break",
            partials: p(&[("brk", "b{% break %}x"), ("boom", "{{ undefined_in_partial }}")]),
            templates: vec![
                "{% for i in a %}{% if i == stop %}{% break %}{% endif %}{% if i == bad %}{{ undefined }}{% endif %}{{ i }}{% endfor %}|end",
                "a{% if stop == 2 %}{% break %}{% endif %}b{% for i in a %}{{ i }}{% endfor %}c",
                "{% for i in a %}{% if i == stop %}{% include 'brk' %}{% endif %}{% if i == bad %}{% include 'boom' %}{% endif %}{{ i }}{% continue %}z{% endfor %}|end",
            ],
            datas: vec![
                V::obj(&[("a", V::Arr(vec![V::Int(1), V::Int(2), V::Int(3)])), ("stop", V::Int(2)), ("bad", V::Int(9))]),
                V::obj(&[("a", V::Arr(vec![V::Int(1), V::Int(2), V::Int(3)])), ("stop", V::Int(3)), ("bad", V::Int(2))]),
                V::obj(&[("a", V::Arr(vec![V::Int(1), V::Int(2), V::Int(3)])), ("stop", V::Int(9)), ("bad", V::Int(9))]),
            ],
        },
        TemplateSet {
            name: "errors inside capture / include / render",
            partials: p(&[("perr", "in{{ boom }}out"), ("pok", "ok{% increment k %}")]),
            templates: vec![
                "{% capture c %}x{{ boom }}{% increment k %}{% endcapture %}{{ c }}|{% increment k %}",
                "{% increment k %}{% include 'perr' %}{% include 'pok' %}",
                "{% cycle 'p', 'q' %}{% render 'perr', boom: boom %}{% cycle 'p', 'q' %}{% render 'pok' %}",
            ],
            datas: vec![V::obj(&[("boom", V::s("B"))]), V::Obj(vec![]), V::obj(&[("boom", V::Nil)])],
        },
        TemplateSet {
            name: "partials: valid, broken, missing, dynamic names",
            partials: p(&[("ok", "[ok{% cycle 'x', 'y' %}]"), ("broken", "{% if %}{{ !! }}"), ("ok2", "[two{% include 'ok' %}]")]),
            templates: vec![
                "{% include 'ok' %}{% include 'ok2' %}",
                "pre{% include name %}post",
                "{% render name %}{% render 'ok' %}",
            ],
            datas: vec![V::obj(&[("name", V::s("ok"))]), V::obj(&[("name", V::s("broken"))]), V::obj(&[("name", V::s("missing"))])],
        },
        TemplateSet {
            name: "partial names with and without the .liquid extension",
            partials: p(&[("card.liquid", "[card {{ v }}{% cycle 'x', 'y' %}]"), ("row", "ROW"), ("row.liquid", "ROWL")]),
            templates: vec![
                "{% render 'card', v: v %}|{% render 'row' %}",
                "<{% include 'card' %}>",
                "{% include 'row.liquid' %}|{% include 'row' %}|{% include 'card.liquid' %}",
            ],
            datas: vec![V::obj(&[("v", V::Int(1))]), V::obj(&[("v", V::s("two"))])],
        },
        TemplateSet {
            name: "failure after partial output inside every wrapping / buffering construct",
            // `fail` selects the construct in which the render dies *after* that construct has already
            // produced output: anything a renderable buffers outside the per-render state survives into
            // the next render of the same parsed template (or cached partial)
            partials: p(&[("inc", "F{{ p }}{% if fail == 7 %}{{ undefined }}{% endif %}f{% ifchanged %}{{ p }}{% if fail == 8 %}{{ undefined }}{% endif %}g{% endifchanged %}")]),
            templates: vec![
                "{% ifchanged %}A{{ p }}{% if fail == 1 %}{{ undefined }}{% endif %}a{% endifchanged %}{% capture c %}B{{ p }}{% if fail == 2 %}{{ undefined }}{% endif %}b{% endcapture %}{{ c }}{% for i in (1..2) %}C{{ i }}{% if fail == 3 %}{{ undefined }}{% endif %}{% ifchanged %}{{ p }}{% if fail == 4 %}{{ undefined }}{% endif %}h{% endifchanged %}{% endfor %}{% tablerow i in (1..2) %}D{% if fail == 5 %}{{ undefined }}{% endif %}{% endtablerow %}{% case p %}{% when 'x' %}E{% if fail == 6 %}{{ undefined }}{% endif %}{% else %}e{% endcase %}{% include 'inc' %}{% unless false %}H{% if fail == 9 %}{{ undefined }}{% endif %}{% endunless %}{{ p | append: 'G' }}{% cycle 'u', 'v' %}{% increment n %}",
                "{% render 'inc', p: p, fail: fail %}|{% ifchanged %}{{ p }}{% endifchanged %}{% capture c %}{% render 'inc', p: p, fail: fail %}{% endcapture %}{{ c }}",
            ],
            datas: {
                let mut d: Vec<V> = (0..10).map(|f| V::obj(&[("fail", V::Int(f)), ("p", V::s("x"))])).collect();
                for f in [0, 1, 4] {
                    d.push(V::obj(&[("fail", V::Int(f)), ("p", V::s("y"))]));
                }
                d
            },
        },
        TemplateSet {
            name: "tablerow / forloop / nested stateful",
            partials: p(&[("row", "{% tablerow i in a cols:2 %}{{ i }}{% cycle 'o', 'e' %}{% endtablerow %}")]),
            templates: vec![
                "{% include 'row' %}{% for i in a %}{% for j in a %}{% if j == 2 %}{% break %}{% endif %}{% increment q %}{% endfor %}{% endfor %}",
                "{% render 'row', a: a %}{% decrement q %}",
            ],
            datas: vec![V::obj(&[("a", V::Arr(vec![V::Int(1), V::Int(2), V::Int(3)]))]), V::obj(&[("a", V::Arr(vec![]))]), V::obj(&[("a", V::s("not-an-array"))])],
        },
    ]
}

fn expand(t: &str) -> String {
    t.replace("P_V", PROBE_V).replace("P_W", PROBE_W)
}

fn render_once(t: &liquid::Template, g: &liquid::Object) -> Outcome {
    match cfgs::render_guarded(t, g) {
        Ok(Ok(s)) => Outcome::Ok(s),
        Ok(Err(e)) => Outcome::RenderErr(e),
        Err(pi) => Outcome::Panic(pi.describe()),
    }
}

fn explore(report: &Report, set: &TemplateSet, policy: Policy, k: u32, reduced: bool) {
    let texts: Vec<String> = set.templates.iter().map(|t| expand(t)).collect();
    let (nt, nd) = if reduced { (texts.len().min(2), set.datas.len().min(2)) } else { (texts.len(), set.datas.len()) };
    let alpha = (nt * nd) as u64;
    let globals: Vec<liquid::Object> = set.datas.iter().map(|d| d.to_object()).collect();
    let fresh = || -> (liquid::Parser, Vec<liquid::Template>) {
        let p = cfgs::build(Config::Stdlib, policy, &set.partials).expect("parser builds");
        let ts = texts.iter().map(|t| p.parse(t).expect("history template parses")).collect();
        (p, ts)
    };
    // baseline: each (template, data) on a freshly built parser, computed twice
    let mut baseline = vec![vec![Outcome::Ok(String::new()); nd]; nt];
    for ti in 0..nt {
        for di in 0..nd {
            let (_, ts) = fresh();
            let a = render_once(&ts[ti], &globals[di]);
            let (_, ts2) = fresh();
            let b = render_once(&ts2[ti], &globals[di]);
            report.evals(2);
            let w = json!({"kind":"history","set":set.name,"policy":format!("{policy:?}"),"partials":set.partials,"templates":texts,"data":set.datas.iter().map(|d| d.to_json()).collect::<Vec<_>>(),"history":[[ti,di]]});
            if let Outcome::Panic(m) = &a {
                report.violation(&format!("C09|panic|{}", crate::report::norm_msg(m)), 0, w.clone(), m.clone());
            }
            if a != b {
                // multi-key object iteration order is the one declared source of variation; the sets avoid it
                report.violation("C09|baseline-not-deterministic", 0, w, format!("two fresh parsers disagree: {} vs {}", a.short(), b.short()));
            }
            baseline[ti][di] = a;
        }
    }
    let total = seq_count(alpha, k);
    let name = format!("{} / {:?} / k<={}{}", set.name, policy, k, if reduced { " (2x2 alphabet)" } else { "" });
    let calls = AtomicU64::new(0);
    let nontriv = AtomicU64::new(0);
    par_range(
        report,
        &name,
        total,
        |i| {
            let h = seq_decode(i, alpha, k);
            if h.is_empty() {
                return;
            }
            let (parser, ts) = fresh();
            let hist: Vec<(usize, usize)> = h.iter().map(|c| ((*c as usize) / nd, (*c as usize) % nd)).collect();
            let w = |upto: usize| json!({"kind":"history","set":set.name,"policy":format!("{policy:?}"),"partials":set.partials,"templates":texts,"data":set.datas.iter().map(|d| d.to_json()).collect::<Vec<_>>(),"history":hist[..=upto].iter().map(|(t,d)| json!([t,d])).collect::<Vec<_>>()});
            let mut distinct = std::collections::HashSet::new();
            for (step, (ti, di)) in hist.iter().enumerate() {
                report.eval();
                calls.fetch_add(1, Ordering::Relaxed);
                let before = globals[*di].clone();
                let got = render_once(&ts[*ti], &globals[*di]);
                distinct.insert((*ti, *di));
                if before != globals[*di] {
                    report.violation("C09|caller-data-modified", i, w(step), "data object changed".into());
                }
                if got != baseline[*ti][*di] {
                    let mut wj = w(step);
                    wj["expected"] = baseline[*ti][*di].to_json();
                    wj["actual"] = got.to_json();
                    report.violation(
                        &format!("C09|result-depends-on-history|{}", set.name),
                        i,
                        wj,
                        format!("call #{} of the history returned {} but a fresh parser returns {}", step + 1, got.short(), baseline[*ti][*di].short()),
                    );
                    return;
                }
            }
            // a freshly parsed copy on the same (used) parser
            let (lt, ld) = *hist.last().unwrap();
            if let Ok(t2) = parser.parse(&texts[lt]) {
                report.eval();
                let got = render_once(&t2, &globals[ld]);
                if got != baseline[lt][ld] {
                    let mut wj = w(hist.len() - 1);
                    wj["expected"] = baseline[lt][ld].to_json();
                    wj["actual"] = got.to_json();
                    report.violation(&format!("C09|fresh-copy-on-used-parser-differs|{}", set.name), i, wj, format!("freshly parsed copy returned {}", got.short()));
                }
            }
            if distinct.len() > 1 || hist.len() > 1 {
                nontriv.fetch_add(1, Ordering::Relaxed);
            }
        },
        |i| json!({"kind":"history","set":set.name,"history":seq_decode(i, alpha, k)}),
    );
    report.states.fetch_add(total, Ordering::Relaxed);
    report.transitions.fetch_add(calls.load(Ordering::Relaxed), Ordering::Relaxed);
    report.traces.fetch_add(calls.load(Ordering::Relaxed), Ordering::Relaxed);
    report.nontrivial.fetch_add(nontriv.load(Ordering::Relaxed), Ordering::Relaxed);
    for row in &baseline {
        for o in row {
            report.outcome(&o.short());
        }
    }
    report.family(FamilyStat { name, cases: total, nontrivial: nontriv.load(Ordering::Relaxed), skipped: 0, note: format!("alphabet={} (templates x data), render calls={}", alpha, calls.load(Ordering::Relaxed)) });
}

pub fn run(tier: Tier) -> i32 {
    let report = Report::new("C09", tier, "model_checking");
    report.set_rule("state = history of render calls on one shared parser and its parsed templates; all histories of length <= k over the alphabet (template x data) of each template set are executed from a fresh parser; every call's result is compared with the same call on a freshly built parser (baseline computed twice) and the last call also with a freshly parsed copy on the used parser; states = histories, transitions = render calls, traces_validated = calls compared; non-trivial = history with more than one call");
    report.assume("template sets avoid iterating multi-key objects (declared unspecified)");
    let sets = sets();
    let k = if tier.thorough() { 5 } else { 4 };
    for set in &sets {
        for policy in [Policy::Eager, Policy::Lazy, Policy::OnDemand] {
            // wide alphabets (many data objects) get one step less so that the tier stays within its budget
            let wide = set.templates.len() * set.datas.len() > 12;
            explore(&report, set, policy, if wide { k - 1 } else { k }, false);
        }
    }
    if tier.thorough() {
        for set in &sets {
            explore(&report, set, Policy::Lazy, 8, true);
            explore(&report, set, Policy::Eager, 8, true);
        }
    }
    generated(&report, if tier.thorough() { 3 } else { 2 });
    zoo(&report, if tier.thorough() { 4 } else { 3 });
    let s = &sets[0];
    report.sample(json!({"set": s.name, "templates": s.templates, "partials": s.partials, "data": s.datas.iter().map(|d| d.to_json()).collect::<Vec<_>>(), "history": [[0,0],[1,1],[0,0]]}));
    report.finish()
}


/// Construct zoo: every tag/block with every argument position *dynamic*, and every registered
/// filter with variable input and arguments, each rendered along all histories (length <= k) of
/// five data objects that drive it differently (other window, other arm, other partial name, other
/// filter operand, type-confused operands).  Oracle: each call equals the same call on a freshly
/// built parser.  This is where state memoised inside a renderable or filter instance (an argument
/// evaluated once, a remembered arm, a cached partial, a leftover buffer) becomes visible.
fn zoo(report: &Report, k: u32) {
    use liquid::reflection::ParserReflection;
    let partials: Vec<(String, String)> = vec![("p1".into(), "[p1 {{ x }}{% cycle 'u', 'v' %}]".into()), ("p2".into(), "[p2 {{ x }}{% increment q %}{% ifchanged %}{{ x }}{% endifchanged %}]".into()),
        // name resolution: `p2` exists in both spellings (render must keep finding the bare one), `p3` only with the
        // extension (render finds it through its fallback, include does not)
        ("p2.liquid".into(), "[p2-with-extension {{ x }}]".into()),
        ("p3.liquid".into(), "[p3 {{ x }}]".into()),
        // a partial with a loop of its own: nested when included from a loop, outermost otherwise
        ("pl".into(), "[{% for j in (1..2) %}{% if forloop.parentloop %}{{ forloop.parentloop.index }}{% else %}-{% endif %}.{{ j }} {% endfor %}]".into()),
    ];
    let mut templates: Vec<String> = [
        "{% for i in a limit: n offset: m %}{{ i }}{% else %}E{% endfor %}",
        "{% for i in (m..n) reversed %}{{ i }}{% else %}E{% endfor %}|{% for i in (n..m) limit: n %}{{ i }}{% endfor %}",
        "{% tablerow i in a cols: n limit: m %}{{ i }}{% endtablerow %}|{% tablerow i in a offset: n %}{{ i }}{% endtablerow %}",
        "{% case t %}{% when 1 %}one{% when 1, 2 %}low{% when s %}S{% when n or m %}NM{% else %}E{% endcase %}",
        "{% if t == n %}eq{% elsif t > n %}gt{% elsif s contains 'a' %}ca{% elsif a contains t %}at{% else %}E{% endif %}",
        "{% unless t %}U{% else %}E{% endunless %}{% if t and n or m %}X{% endif %}",
        "{% include nm %}|{% include nm x: t %}",
        "{% render nm, x: t %}|{% render nm with t as x %}",
        "{% render nm for a as x %}",
        "{% cycle s: 'a', 'b' %}{% cycle s: 'a', 'b' %}|{% cycle t, n, m %}{% cycle t, n, m %}",
        "{% assign v = s | append: s %}{{ v }}{% capture c %}{{ t }}{% endcapture %}{{ c }}",
        "{% increment n %}{% decrement n %}{{ n }}{% increment zz %}",
        "{% ifchanged %}{{ t }}{% endifchanged %}{% ifchanged %}{{ t }}{% endifchanged %}{% for i in a %}{% ifchanged %}{{ t }}{% endifchanged %}{% endfor %}",
        "{{ a[n] }}|{{ a.first }}|{{ a.size }}",
        "{{ o[s] }}|{{ o.k }}",
        "{{ o[s][t] }}",
        "{% for i in a %}{% for j in a limit: n %}{{ forloop.parentloop.index }}{{ j }}{% if j == t %}{% break %}{% endif %}{% endfor %}{% if i == t %}{% continue %}{% endif %}.{% endfor %}",
        "{% comment %}{{ t }}{% endcomment %}{% raw %}{{ t }}{% endraw %}{{ t }}",
        "{% for i in (1..2) %}{% case t %}{% when i %}hit{{ i }}{% when 1, 2 %}low{% else %}E{% endcase %}{% include nm x: i %}{% endfor %}",
        // the same parsed partial (and the loop in it) executed outside a loop, inside one, or both, depending on the data
        "{% if n == 1 %}{% include 'pl' %}{% endif %}|{% for i in a limit: 2 %}{% include 'pl' %}{% render 'pl' %}{% endfor %}|{% if m == 1 %}{% include 'pl' %}{% endif %}",
    ]
    .iter()
    .map(|s| s.to_string())
    .collect();
    let parser0 = cfgs::parser(Config::Full);
    let mut filters: Vec<String> = parser0.filters().map(|f| f.name().to_string()).filter(|n| n != "dump").collect();
    filters.sort();
    for f in &filters {
        templates.push(format!("{{{{ s | {f} }}}}|{{{{ a | {f} }}}}|{{{{ n | {f} }}}}"));
        templates.push(format!("{{{{ s | {f}: n }}}}|{{{{ s | {f}: s2 }}}}|{{{{ a | {f}: s }}}}|{{{{ n | {f}: m }}}}|{{{{ ts | {f}: f }}}}"));
        templates.push(format!("{{{{ s | {f}: n, m }}}}|{{{{ s | {f}: s2, s }}}}|{{{{ a | {f}: s, t }}}}|{{{{ s | {f}: m, s2 }}}}"));
        // a literal input with literal and variable arguments mixed in every order: nothing about such a chain is
        // constant as long as one argument is a variable
        templates.push(format!("{{{{ 'a,b-c a,b' | {f}: s2, ',' }}}}|{{{{ 'a,b-c a,b' | {f}: ',', s2 }}}}"));
        templates.push(format!("{{{{ 'a,b-c a,b' | {f}: n, 1 }}}}|{{{{ 'a,b-c a,b' | {f}: 1, n }}}}"));
        templates.push(format!("{{{{ 7 | {f}: m, 2 }}}}|{{{{ 7 | {f}: 2, m }}}}|{{{{ 'a,b-c a,b' | {f}: s2 }}}}|{{{{ 7 | {f}: m }}}}"));
    }
    let o = |pairs: &[(&str, V)]| V::obj(pairs);
    let datas: Vec<V> = vec![
        o(&[("a", V::Arr(vec![V::Int(1), V::Int(2), V::Int(3)])), ("n", V::Int(1)), ("m", V::Int(2)), ("s", V::s("a,b")), ("s2", V::s(",")), ("t", V::Int(1)), ("nm", V::s("p1")), ("f", V::s("%Y")), ("o", o(&[("k", V::Int(1)), ("a,b", o(&[("1", V::s("deep"))]))])), ("ts", V::s("2020-02-29 12:00:00 +0000"))]),
        o(&[("a", V::Arr(vec![V::s("x"), V::s("y")])), ("n", V::Int(2)), ("m", V::Int(0)), ("s", V::s("x")), ("s2", V::s("x")), ("t", V::Int(2)), ("nm", V::s("p2")), ("f", V::s("%j")), ("o", o(&[("k", V::s("v")), ("x", o(&[("2", V::Int(3))]))])), ("ts", V::DateTime("1999-12-31 23:59:59 -0330".into()))]),
        o(&[("a", V::Arr(vec![])), ("n", V::Int(0)), ("m", V::Int(5)), ("s", V::s("")), ("s2", V::s("")), ("t", V::Nil), ("nm", V::s("missing")), ("f", V::s("%")), ("o", V::Obj(vec![])), ("ts", V::s("nope"))]),
        o(&[("a", V::Arr(vec![o(&[("x", V::Int(1))]), o(&[("x", V::Int(2))]), o(&[("y", V::Int(3))])])), ("n", V::Int(3)), ("m", V::Int(1)), ("s", V::s("x")), ("s2", V::s("b")), ("t", V::s("x")), ("nm", V::s("p3")), ("f", V::s("%H:%M")), ("o", o(&[("x", o(&[("x", V::Int(1))]))])), ("ts", V::Int(0))]),
        o(&[("a", V::s("str")), ("n", V::s("2")), ("m", V::Int(-1)), ("s", V::Int(5)), ("s2", V::Nil), ("t", V::Arr(vec![V::Int(1)])), ("nm", V::Int(7)), ("f", V::Nil), ("o", V::Arr(vec![V::Int(1)])), ("ts", V::Nil)]),
    ];
    let globals: Vec<liquid::Object> = datas.iter().map(|d| d.to_object()).collect();
    let nd = datas.len() as u64;
    let hist_per_t = seq_count(nd, k) - 1; // non-empty histories
    for policy in [Policy::Eager, Policy::Lazy, Policy::OnDemand] {
        // baseline: every (template, data) on its own freshly built parser, twice
        let baseline: Vec<Vec<Outcome>> = templates
            .iter()
            .map(|t| {
                (0..datas.len())
                    .map(|di| {
                        let one = || {
                            let p = cfgs::build(Config::Full, policy, &partials).expect("parser builds");
                            match cfgs::parse_guarded(&p, t) {
                                Ok(Ok(tt)) => render_once(&tt, &globals[di]),
                                Ok(Err(e)) => Outcome::ParseErr(e),
                                Err(pi) => Outcome::Panic(pi.describe()),
                            }
                        };
                        let (a, b) = (one(), one());
                        report.evals(2);
                        if a != b {
                            report.violation("C09|baseline-not-deterministic|zoo", 0, json!({"kind":"history","templates":[t],"data":[datas[di].to_json()]}), format!("two fresh parsers disagree: {} vs {}", a.short(), b.short()));
                        }
                        a
                    })
                    .collect()
            })
            .collect();
        let shared = cfgs::build(Config::Full, policy, &partials).expect("parser builds");
        let total = templates.len() as u64 * hist_per_t;
        let name = format!("construct zoo / {policy:?} / histories k<={k}");
        let calls = AtomicU64::new(0);
        let nontriv = AtomicU64::new(0);
        par_range(
            report,
            &name,
            total,
            |i| {
                let (ti, hi) = ((i / hist_per_t) as usize, i % hist_per_t + 1);
                let hist = seq_decode(hi, nd, k);
                // templates that do not parse (a filter used with the wrong arity) have nothing to re-execute
                let Ok(Ok(t)) = cfgs::parse_guarded(&shared, &templates[ti]) else { return };
                if hist.len() > 1 {
                    nontriv.fetch_add(1, Ordering::Relaxed);
                }
                for (step, di) in hist.iter().enumerate() {
                    let got = render_once(&t, &globals[*di as usize]);
                    report.eval();
                    calls.fetch_add(1, Ordering::Relaxed);
                    let want = &baseline[ti][*di as usize];
                    if got != *want {
                        report.violation(
                            "C09|result-depends-on-history|zoo",
                            i,
                            json!({"kind":"history","set":"zoo","policy":format!("{policy:?}"),"partials":partials,"templates":[templates[ti]],"data":datas.iter().map(|d| d.to_json()).collect::<Vec<_>>(),"history":hist[..=step].iter().map(|d| json!([0, d])).collect::<Vec<_>>(),"expected":want.to_json(),"actual":got.to_json()}),
                            format!("{} : call #{} of history {:?} (data indices) returned {} but a fresh parser returns {}", templates[ti], step + 1, hist, got.short(), want.short()),
                        );
                        return;
                    }
                }
            },
            |i| json!({"kind":"history","templates":[templates[(i / hist_per_t) as usize]]}),
        );
        for row in baseline.iter().step_by(7) {
            for oc in row {
                report.outcome(&oc.short());
            }
        }
        report.states.fetch_add(total, Ordering::Relaxed);
        report.transitions.fetch_add(calls.load(Ordering::Relaxed), Ordering::Relaxed);
        report.traces.fetch_add(calls.load(Ordering::Relaxed), Ordering::Relaxed);
        report.nontrivial.fetch_add(nontriv.load(Ordering::Relaxed), Ordering::Relaxed);
        report.family(FamilyStat { name, cases: total, nontrivial: nontriv.load(Ordering::Relaxed), skipped: 0, note: format!("{} templates ({} constructs with dynamic arguments + {} registered filters x 6 argument shapes) x all histories of <= {k} of {} data objects on one parsed template; render calls={}", templates.len(), templates.len() - 6 * filters.len(), filters.len(), datas.len(), calls.load(Ordering::Relaxed)) });
    }
}

/// Every generated C08 scenario, rendered d0,d1,d0,d1 on one parser per policy:
/// the i-th use must equal the first use of the same (template, data).
fn generated(report: &Report, max_n: usize) {
    use crate::props::c08;
    let g = c08::grammar(max_n);
    let total = g.count_upto(max_n);
    let (src, _) = c08::library_sources();
    let datas = c08::datas();
    let globals: Vec<liquid::Object> = datas.iter().map(|d| d.to_object()).collect();
    for policy in [Policy::Eager, Policy::Lazy] {
        let parser = cfgs::build(Config::Stdlib, policy, &src).expect("parser");
        let name = format!("generated-scenarios/N<={max_n}/{policy:?}/d0,d1,d0,d1 on one shared parser");
        let calls = AtomicU64::new(0);
        par_range(
            report,
            &name,
            total,
            |i| {
                let (_, textp) = c08::build_program(&g, i, max_n);
                let Ok(Ok(t)) = cfgs::parse_guarded(&parser, &textp) else { return };
                let first: Vec<Outcome> = (0..2).map(|d| render_once(&t, &globals[d])).collect();
                report.evals(4);
                calls.fetch_add(4, Ordering::Relaxed);
                for d in 0..2 {
                    let again = render_once(&t, &globals[d]);
                    if again != first[d] {
                        report.violation(
                            "C09|result-depends-on-history|generated",
                            i,
                            json!({"kind":"history","policy":format!("{policy:?}"),"partials":src,"templates":[textp],"data":datas.iter().map(|d| d.to_json()).collect::<Vec<_>>(),"history":[[0,0],[0,1],[0,d]],"expected":first[d].to_json(),"actual":again.to_json()}),
                            format!("second use returned {} but first use returned {}", again.short(), first[d].short()),
                        );
                    }
                }
            },
            |i| json!({"kind":"history","templates":[c08::build_program(&g, i, max_n).1]}),
        );
        report.states.fetch_add(total, Ordering::Relaxed);
        report.transitions.fetch_add(calls.load(Ordering::Relaxed), Ordering::Relaxed);
        report.traces.fetch_add(calls.load(Ordering::Relaxed) / 2, Ordering::Relaxed);
        report.nontrivial.fetch_add(total, Ordering::Relaxed);
        report.family(FamilyStat { name, cases: total, nontrivial: total, skipped: 0, note: "parser shared by all programs of the family (its lazy cache and store evolve across the whole enumeration)".into() });
    }
}
