//! C11 — value equality and ordering are coherent and construction-independent.

use crate::cfgs::{self, Config, Outcome};
use crate::report::{FamilyStat, Report, Tier};
use crate::run::{guard, par_range};
use crate::val::V;
use liquid_core::model::{ValueCow, ValueViewCmp};
use liquid_core::Value;
use serde_json::json;
use std::cmp::Ordering as O;
use std::sync::atomic::{AtomicU64, Ordering};

fn obj6(order: &[usize]) -> V {
    let base = [("a", V::Int(1)), ("b", V::s("x")), ("c", V::Nil), ("d", V::Float(0.5)), ("e", V::Arr(vec![V::Int(1)])), ("f", V::Bool(true))];
    V::Obj(order.iter().map(|i| (base[*i].0.to_string(), base[*i].1.clone())).collect())
}

/// (label, value). Arrays/objects also appear as independently rebuilt copies
/// (different insertion orders) — `to_liquid()` builds fresh hash maps every time.
pub fn pool() -> Vec<(String, V)> {
    let mut v: Vec<V> = vec![
        V::Nil, V::Bool(true), V::Bool(false),
        V::Int(0), V::Int(1), V::Int(-1), V::Int(2), V::Int(1 << 53), V::Int((1 << 53) + 1), V::Int(i64::MAX), V::Int(i64::MIN),
        V::Float(0.0), V::Float(-0.0), V::Float(0.5), V::Float(1.0), V::Float(2.0), V::Float((1u64 << 53) as f64), V::Float(f64::INFINITY), V::Float(f64::NEG_INFINITY), V::Float(f64::NAN), V::Float(-1.0),
        V::s(""), V::s(" "), V::s("a"), V::s("A"), V::s("abc"), V::s("1"), V::s("1.0"), V::s("true"), V::s("false"), V::s("nil"), V::s("é"), V::s("e\u{301}"), V::s("b"),
        V::Date(2020, 2, 29), V::Date(2020, 3, 1),
        V::DateTime("2020-02-29 12:00:00 +0000".into()), V::DateTime("2020-02-29 17:30:00 +0530".into()), V::DateTime("2020-02-29 00:00:00 +0000".into()), V::DateTime("2020-03-01 01:00:00 +1400".into()),
        V::Empty, V::Blank,
        V::Arr(vec![]), V::Arr(vec![V::Int(1)]), V::Arr(vec![V::Float(1.0)]), V::Arr(vec![V::Float(f64::NAN)]), V::obj(&[("k", V::Float(f64::NAN))]), V::Arr(vec![V::Int(1), V::Int(2)]), V::Arr(vec![V::Int(2), V::Int(1)]), V::Arr(vec![V::Nil]), V::Arr(vec![V::s("a"), V::Int(1)]),
        V::Arr(vec![V::Arr(vec![V::Int(1)]), V::Arr(vec![])]), V::Arr(vec![V::obj(&[("k", V::Int(1))])]),
        V::Obj(vec![]), V::obj(&[("k", V::Int(1))]), V::obj(&[("k", V::Float(1.0))]), V::obj(&[("k", V::Int(2))]), V::obj(&[("j", V::Int(1))]), V::obj(&[("k", V::Nil)]),
        V::obj(&[("k", V::Int(1)), ("j", V::Int(2))]), V::obj(&[("j", V::Int(2)), ("k", V::Int(1))]),
        V::obj(&[("k", V::obj(&[("n", V::Arr(vec![V::Int(1)]))]))]),
        obj6(&[0, 1, 2, 3, 4, 5]), obj6(&[5, 4, 3, 2, 1, 0]), obj6(&[3, 0, 5, 1, 4, 2]),
        V::Obj(vec![("a".into(), V::Int(1)), ("b".into(), V::s("x")), ("c".into(), V::Nil), ("d".into(), V::Float(0.5)), ("e".into(), V::Arr(vec![V::Int(1)])), ("f".into(), V::Bool(false))]),
        V::Arr(vec![obj6(&[0, 1, 2, 3, 4, 5]), obj6(&[5, 4, 3, 2, 1, 0])]),
        V::Arr(vec![obj6(&[2, 1, 0, 5, 4, 3]), obj6(&[1, 0, 3, 2, 5, 4])]),
    ];
    v.push(V::Str("abc".to_string()));
    v.into_iter().enumerate().map(|(i, x)| (format!("#{i}:{}", x.kind()), x)).collect()
}

fn code(o: Option<O>) -> char {
    match o {
        Some(O::Less) => '<',
        Some(O::Greater) => '>',
        Some(O::Equal) => '=',
        None => '?',
    }
}

/// One row per ordered pair: "<eq><cmp>" through the `Value` API, built freshly.
pub fn table(pool: &[(String, V)]) -> String {
    let mut s = String::new();
    for (_, a) in pool {
        for (_, b) in pool {
            let (la, lb) = (a.to_liquid(), b.to_liquid());
            s.push(if la == lb { 'T' } else { 'F' });
            s.push(code(la.partial_cmp(&lb)));
        }
        s.push('\n');
    }
    s
}

pub fn print_table() {
    print!("{}", table(&pool()));
}

fn surfaces(a: &Value, b: &Value) -> Vec<(&'static str, bool, Option<O>)> {
    let (ca, cb) = (ValueCow::Owned(a.clone()), ValueCow::Owned(b.clone()));
    let (ba, bb) = (ValueCow::Borrowed(a), ValueCow::Borrowed(b));
    let (va, vb) = (ValueViewCmp::new(a), ValueViewCmp::new(b));
    vec![
        ("Value", a == b, a.partial_cmp(b)),
        ("ValueCow::Owned", ca == cb, ValueViewCmp::new(ca.as_view()).partial_cmp(&ValueViewCmp::new(cb.as_view()))),
        ("ValueCow::Borrowed", ba == bb, ValueViewCmp::new(ba.as_view()).partial_cmp(&ValueViewCmp::new(bb.as_view()))),
        ("ValueCow mixed", ca == bb, ValueViewCmp::new(ca.as_view()).partial_cmp(&ValueViewCmp::new(bb.as_view()))),
        ("ValueViewCmp", va == vb, va.partial_cmp(&vb)),
        ("ValueCow==Value", ca == *b, va.partial_cmp(&vb)),
        ("Value==ValueViewCmp", *a == vb, va.partial_cmp(&vb)),
    ]
}

fn kinds(a: &V, b: &V) -> String {
    let (mut x, mut y) = (a.kind(), b.kind());
    if x > y {
        std::mem::swap(&mut x, &mut y);
    }
    format!("{x}~{y}")
}

fn laws(report: &Report, pool: &[(String, V)]) {
    let n = pool.len() as u64;
    let total = n * n;
    let name = format!("pair laws/pool={n}");
    let nontriv = AtomicU64::new(0);
    par_range(
        report,
        &name,
        total,
        |i| {
            let (ai, bi) = ((i / n) as usize, (i % n) as usize);
            let (a, b) = (&pool[ai].1, &pool[bi].1);
            report.eval();
            let w = || json!({"kind":"compare","a":a.to_json(),"b":b.to_json(),"a_label":pool[ai].0,"b_label":pool[bi].0});
            let r = guard(|| {
                let (la, lb) = (a.to_liquid(), b.to_liquid());
                // independently rebuilt copy of a
                let la2 = a.to_liquid();
                let s_ab = surfaces(&la, &lb);
                let s_ba = surfaces(&lb, &la);
                let s_a2b = surfaces(&la2, &lb);
                // the very same instance on both sides: the outcome may not differ from two separately built equal values
                let s_same = if ai == bi { Some(surfaces(&la, &la)) } else { None };
                (s_ab, s_ba, s_a2b, la == la, la == la2, la.partial_cmp(&la2), s_same)
            });
            let (s_ab, s_ba, s_a2b, refl, refl2, cmp_aa2, s_same) = match r {
                Err(pi) => {
                    report.violation(&format!("C11|{}", pi.sig()), i, w(), pi.describe());
                    return;
                }
                Ok(x) => x,
            };
            let (eq, cmp) = (s_ab[0].1, s_ab[0].2);
            let k = kinds(a, b);
            let bad = |clause: &str, detail: String| report.violation(&format!("C11|{clause}|{k}"), i, w(), detail);
            if eq || cmp.is_some() {
                nontriv.fetch_add(1, Ordering::Relaxed);
            }
            if i % 7 == 0 {
                report.outcome(&(eq, code(cmp)));
            }
            if let Some(same) = &s_same {
                for ((nm, e, c), (_, e2, c2)) in same.iter().zip(s_ab.iter()) {
                    if e != e2 || c != c2 {
                        bad("same-instance-differs-from-equal-copy", format!("{nm}: a ? a (one instance) gives eq={e} cmp={c:?}, a ? a' (separately built) gives eq={e2} cmp={c2:?}"));
                    }
                }
            }
            // all API surfaces agree
            for (nm, e, c) in &s_ab {
                if *e != eq || *c != cmp {
                    bad("api-surfaces-disagree", format!("{nm}: eq={e} cmp={:?} but Value: eq={eq} cmp={cmp:?}", c));
                }
            }
            // symmetry and duality
            if s_ba[0].1 != eq {
                bad("equality-not-symmetric", format!("a==b is {eq} but b==a is {}", s_ba[0].1));
            }
            if s_ba[0].2 != cmp.map(|o| o.reverse()) {
                bad("ordering-not-dual", format!("cmp(a,b)={cmp:?} but cmp(b,a)={:?}", s_ba[0].2));
            }
            // != is the negation; <= / >= derive from < > ==
            let (la, lb) = (a.to_liquid(), b.to_liquid());
            #[allow(clippy::nonminimal_bool)]
            if (la != lb) != !eq {
                bad("ne-is-not-negation-of-eq", String::new());
            }
            if cmp.is_some() {
                let lt = la < lb;
                let gt = la > lb;
                if (la <= lb) != (lt || eq) || (la >= lb) != (gt || eq) {
                    bad("le-ge-incoherent-with-lt-gt-eq", format!("eq={eq} cmp={cmp:?} le={} ge={}", la <= lb, la >= lb));
                }
            }
            if eq && matches!(cmp, Some(O::Less) | Some(O::Greater)) {
                bad("equal-values-strictly-ordered", format!("a==b but cmp={cmp:?}"));
            }
            // reflexivity (NaN excepted) incl. against an independently built copy
            let has_nan = format!("{:?}", a).contains("NaN");
            if ai == bi && !has_nan {
                if !refl || !refl2 {
                    bad("not-reflexive", format!("a==a: {refl}, a==rebuilt(a): {refl2}"));
                }
                if matches!(cmp_aa2, Some(O::Less) | Some(O::Greater)) {
                    bad("value-strictly-ordered-against-its-own-copy", format!("cmp(a, rebuilt(a)) = {cmp_aa2:?}"));
                }
            }
            // congruence: the outcome does not depend on how a was built
            if s_a2b[0].1 != eq || s_a2b[0].2 != cmp {
                bad("depends-on-construction", format!("(a,b): eq={eq} cmp={cmp:?}; (rebuilt a, b): eq={} cmp={:?}", s_a2b[0].1, s_a2b[0].2));
            }
            // integer/float equality within 2^53
            if let (V::Int(x), V::Float(y)) | (V::Float(y), V::Int(x)) = (a, b) {
                if x.unsigned_abs() <= 1 << 53 && eq != (*x as f64 == *y) {
                    bad("int-float-equality", format!("{x} vs {y}: eq={eq}"));
                }
            }
            // date-times: equal iff same instant; ordering chronological
            if let (V::DateTime(x), V::DateTime(y)) = (a, b) {
                let inst = |s: &str| liquid_core::model::DateTime::from_str(s).unwrap().format("%s").unwrap().parse::<i64>().unwrap();
                if eq != (inst(x) == inst(y)) || cmp != Some(inst(x).cmp(&inst(y))) {
                    bad("datetime-not-chronological", format!("{x} vs {y}: eq={eq} cmp={cmp:?}"));
                }
            }
        },
        |i| json!({"a": pool[(i / n) as usize].0, "b": pool[(i % n) as usize].0}),
    );
    report.nontrivial.fetch_add(nontriv.load(Ordering::Relaxed), Ordering::Relaxed);
    report.family(FamilyStat { name, cases: total, nontrivial: nontriv.load(Ordering::Relaxed), skipped: 0, note: "7 API surfaces per pair; (a,b), (b,a) and (rebuilt a, b)".into() });
}

fn templates(report: &Report, pool: &[(String, V)]) {
    let parser = cfgs::parser(Config::Stdlib);
    let n = pool.len() as u64;
    let total = n * n;
    let name = "templates vs API".to_string();
    let text = "{% if a == b %}T{% else %}F{% endif %}{% if a != b %}T{% else %}F{% endif %}{% if a < b %}T{% else %}F{% endif %}{% if a > b %}T{% else %}F{% endif %}{% if a <= b %}T{% else %}F{% endif %}{% if a >= b %}T{% else %}F{% endif %}|{% case a %}{% when b %}T{% else %}F{% endcase %}|{% if pair contains a %}T{% else %}F{% endif %}|{{ both | uniq | size }}|{{ both | sort | dump }}";
    let tmpl = parser.parse(text).expect("C11 template parses");
    par_range(
        report,
        &name,
        total,
        |i| {
            let (a, b) = (&pool[(i / n) as usize].1, &pool[(i % n) as usize].1);
            report.eval();
            let data = V::obj(&[("a", a.clone()), ("b", b.clone()), ("pair", V::Arr(vec![b.clone()])), ("both", V::Arr(vec![a.clone(), b.clone()]))]);
            let (la, lb) = (a.to_liquid(), b.to_liquid());
            let eq = la == lb;
            let t = |x: bool| if x { 'T' } else { 'F' };
            let want_ops: String = [eq, la != lb, la < lb, la > lb, la <= lb, la >= lb].iter().map(|x| t(*x)).collect();
            let actual = match cfgs::render_guarded(&tmpl, &data.to_object()) {
                Ok(Ok(s)) => Outcome::Ok(s),
                Ok(Err(e)) => Outcome::RenderErr(e),
                Err(pi) => Outcome::Panic(pi.describe()),
            };
            let w = || json!({"kind":"render","template":text,"data":data.to_json(),"partials":[],"actual":actual.to_json()});
            let Outcome::Ok(out) = &actual else {
                report.violation(&format!("C11|template|{}", if matches!(actual, Outcome::Panic(_)) { "panic" } else { "error" }), i, w(), actual.short());
                return;
            };
            let parts: Vec<&str> = out.splitn(5, '|').collect();
            if parts.len() != 5 {
                report.violation("C11|template|malformed-output", i, w(), out.clone());
                return;
            }
            let k = kinds(a, b);
            if parts[0] != want_ops {
                report.violation(&format!("C11|template|if-operators-disagree-with-api|{k}"), i, w(), format!("== != < > <= >= : template {} api {want_ops}", parts[0]));
            }
            if parts[1] != t(eq).to_string() {
                report.violation(&format!("C11|template|case-disagrees-with-api|{k}"), i, w(), format!("case/when {} api eq {eq}", parts[1]));
            }
            if parts[2] != t(eq).to_string() {
                report.violation(&format!("C11|template|contains-disagrees-with-api|{k}"), i, w(), format!("[b] contains a: {} api eq {eq}", parts[2]));
            }
            let want_uniq = if eq { "1" } else { "2" };
            if parts[3] != want_uniq {
                report.violation(&format!("C11|template|uniq-disagrees-with-api|{k}"), i, w(), format!("[a,b] | uniq | size = {} api eq {eq}", parts[3]));
            }
            // sort: strictly ordered pairs come out in order (nil last is the filter's own rule)
            if !matches!(a, V::Nil) && !matches!(b, V::Nil) {
                let want = match la.partial_cmp(&lb) {
                    Some(O::Greater) => Some(format!("[{},{}]", cfgs::dump_v(b), cfgs::dump_v(a))),
                    Some(O::Less) => Some(format!("[{},{}]", cfgs::dump_v(a), cfgs::dump_v(b))),
                    _ => None,
                };
                if let Some(wnt) = want {
                    // dump of floats/objects may print differently from dump_v only in object key order (both sorted) — compare as is
                    if parts[4] != wnt && !format!("{a:?}{b:?}").contains("NaN") {
                        report.violation(&format!("C11|template|sort-disagrees-with-api|{k}"), i, w(), format!("sorted {} expected {wnt}", parts[4]));
                    }
                }
            }
        },
        |i| json!({"a": pool[(i / n) as usize].0, "b": pool[(i % n) as usize].0}),
    );
    report.nontrivial.fetch_add(total, Ordering::Relaxed);
    report.family(FamilyStat { name, cases: total, nontrivial: total, skipped: 0, note: "if ==,!=,<,>,<=,>= / case-when / contains / uniq / sort on every ordered pair must agree with the Value API".into() });
}

fn stability(report: &Report, pool: &[(String, V)], rebuilds: usize, processes: usize) {
    let base = table(pool);
    let mut n = 1u64;
    for r in 0..rebuilds {
        n += 1;
        report.evals((pool.len() * pool.len()) as u64);
        let t = table(pool);
        if t != base {
            let (row, col) = first_diff(&base, &t, pool.len());
            report.violation(
                &format!("C11|table-differs-between-rebuilds|{}", kinds(&pool[row].1, &pool[col].1)),
                r as u64,
                json!({"kind":"compare","a":pool[row].1.to_json(),"b":pool[col].1.to_json(),"a_label":pool[row].0,"b_label":pool[col].0}),
                format!("rebuild #{r}: pair ({}, {}) changed its outcome", pool[row].0, pool[col].0),
            );
            break;
        }
    }
    // fresh processes (different hash seeds)
    let exe = std::env::current_exe().expect("current exe");
    let mut handles = Vec::new();
    for _ in 0..processes {
        handles.push(std::process::Command::new(&exe).args(["worker", "c11-table"]).stdout(std::process::Stdio::piped()).spawn());
    }
    for (pi, h) in handles.into_iter().enumerate() {
        n += 1;
        report.evals((pool.len() * pool.len()) as u64);
        match h.and_then(|c| c.wait_with_output()) {
            Ok(out) if out.status.success() => {
                let t = String::from_utf8_lossy(&out.stdout).to_string();
                if t != base {
                    let (row, col) = first_diff(&base, &t, pool.len());
                    report.violation(
                        &format!("C11|table-differs-between-processes|{}", kinds(&pool[row].1, &pool[col].1)),
                        pi as u64,
                        json!({"kind":"compare","a":pool[row].1.to_json(),"b":pool[col].1.to_json(),"a_label":pool[row].0,"b_label":pool[col].0}),
                        format!("process #{pi}: pair ({}, {}) has a different outcome than in this process", pool[row].0, pool[col].0),
                    );
                    break;
                }
            }
            other => {
                eprintln!("[C11] machinery failure: table worker did not run: {other:?}");
                std::process::exit(2);
            }
        }
    }
    report.nontrivial.fetch_add(n, Ordering::Relaxed);
    report.family(FamilyStat { name: "table stability".into(), cases: n, nontrivial: n, skipped: 0, note: format!("full pair table recomputed from freshly built values {rebuilds} times in this process and in {processes} fresh processes, compared byte for byte") });
}


/// Construction independence for *derived* objects.  `b` differs from `a` in two entries moved in
/// opposite directions (so the verdict of an entry-wise comparison depends on which entry is
/// looked at first); `b` is obtained four ways — built independently (reverse insertion order),
/// cloned from `a` and edited in place (same hasher state, same iteration order as `a`),
/// re-collected from `a`'s own iteration order into a fresh map, and through `to_value()` of a
/// view — and all four must compare alike against `a`, in both directions, on every rebuild.
fn derived_objects(report: &Report, rounds: usize) {
    use liquid_core::model::{KString, Object, ValueView};
    let parser = cfgs::parser(Config::Stdlib);
    let tmpl = parser.parse("{% if a < b %}<{% elsif a > b %}>{% elsif a == b %}={% else %}?{% endif %}").expect("C11 template parses");
    let mut n = 0u64;
    let mut outcomes = std::collections::BTreeSet::new();
    for &size in &[2usize, 3, 6, 16] {
        let key = |i: usize| KString::from_string(format!("k{i:02}"));
        for round in 0..rounds {
            // a fresh `a` per round: a new hasher state, hence a new iteration order
            let mut a = Object::new();
            for i in 0..size {
                a.insert(key(i), Value::scalar(10i64 + i as i64));
            }
            for i in 0..size {
                for j in 0..size {
                    if i == j || (size == 16 && (i + j + round) % 5 != 0) {
                        continue;
                    }
                    // entry i goes up, entry j goes down
                    let newv = |k: usize| -> Value {
                        let base = 10i64 + k as i64;
                        Value::scalar(if k == i { base + 1 } else if k == j { base - 1 } else { base })
                    };
                    let mut independent = Object::new();
                    for k in (0..size).rev() {
                        independent.insert(key(k), newv(k));
                    }
                    let mut cloned = a.clone();
                    cloned.insert(key(i), newv(i));
                    cloned.insert(key(j), newv(j));
                    let mut recollected = Object::new();
                    for (k, _) in a.iter() {
                        let idx: usize = k.as_str()[1..].parse().unwrap_or(0);
                        recollected.insert(k.clone(), newv(idx));
                    }
                    let via_view = ValueView::to_value(&cloned);
                    let va = Value::Object(a.clone());
                    let variants: Vec<(&str, Value)> = vec![("independent", Value::Object(independent)), ("clone-edited", Value::Object(cloned)), ("recollected", Value::Object(recollected)), ("to_value", via_view)];
                    n += 1;
                    report.eval();
                    let r = guard(|| variants.iter().map(|(nm, vb)| (*nm, va == *vb, va.partial_cmp(vb), vb.partial_cmp(&va))).collect::<Vec<_>>());
                    let w = || json!({"kind":"compare","a":format!("{} keys k00.. = 10..", size),"b":format!("a with k{i:02}+1 and k{j:02}-1"),"round":round});
                    let rows = match r {
                        Err(pi) => {
                            report.violation(&format!("C11|derived|{}", pi.sig()), n, w(), pi.describe());
                            continue;
                        }
                        Ok(x) => x,
                    };
                    let first = &rows[0];
                    for row in &rows {
                        if row.1 {
                            report.violation("C11|derived|unequal-objects-compare-equal", n, w(), format!("{}: a == b although two entries differ", row.0));
                        }
                        if (row.1, row.2, row.3) != (first.1, first.2, first.3) {
                            report.violation("C11|derived|outcome-depends-on-construction", n, w(), format!("a vs b built `{}`: cmp={:?}/{:?}; built `{}`: cmp={:?}/{:?}", first.0, first.2, first.3, row.0, row.2, row.3));
                        }
                        let dual = match (row.2, row.3) {
                            (Some(x), Some(y)) => x == y.reverse(),
                            (None, None) => true,
                            _ => false,
                        };
                        if !dual {
                            report.violation("C11|derived|less-greater-not-dual", n, w(), format!("{}: a?b = {:?} but b?a = {:?}", row.0, row.2, row.3));
                        }
                    }
                    outcomes.insert((size, i, j, code(first.2)));
                    // the same through a template, with the clone-edited object
                    if round < 3 {
                        let mut g = Object::new();
                        g.insert("a".into(), va.clone());
                        g.insert("b".into(), variants[1].1.clone());
                        let got = cfgs::render_guarded(&tmpl, &g);
                        let want = code(first.2).to_string();
                        if !matches!(&got, Ok(Ok(s)) if *s == want) {
                            report.violation("C11|derived|template-disagrees", n, w(), format!("template says {got:?}, independent construction says {want}"));
                        }
                    }
                }
            }
        }
    }
    // the verdict for a given (size, i, j) must be one and the same in every round
    let mut per: std::collections::BTreeMap<(usize, usize, usize), std::collections::BTreeSet<char>> = Default::default();
    for (s, i, j, c) in &outcomes {
        per.entry((*s, *i, *j)).or_default().insert(*c);
    }
    for ((s, i, j), cs) in &per {
        if cs.len() > 1 {
            report.violation("C11|derived|outcome-differs-between-rebuilds", (*s * 1000 + *i * 32 + *j) as u64, json!({"kind":"compare","size":s,"up":i,"down":j}), format!("{s}-key object vs itself with k{i:02}+1, k{j:02}-1: outcomes {cs:?} over the rebuilds"));
        }
    }
    report.outcome(&per.len());
    report.nontrivial.fetch_add(n, Ordering::Relaxed);
    report.family(FamilyStat { name: "derived objects".into(), cases: n, nontrivial: n, skipped: 0, note: format!("objects of 2/3/6/16 keys vs a copy with two entries moved in opposite directions, for every (up, down) position pair; the copy built 4 ways (independent, clone+edit, re-collected in iteration order, to_value); {rounds} rebuilds each") });
}

fn first_diff(a: &str, b: &str, n: usize) -> (usize, usize) {
    let (x, y): (Vec<char>, Vec<char>) = (a.chars().collect(), b.chars().collect());
    for i in 0..x.len().min(y.len()) {
        if x[i] != y[i] {
            let row = i / (2 * n + 1);
            let col = (i % (2 * n + 1)) / 2;
            return (row.min(n - 1), col.min(n - 1));
        }
    }
    (0, 0)
}

pub fn run(tier: Tier) -> i32 {
    let report = Report::new("C11", tier, "exploration");
    let pool = pool();
    report.set_rule("closed pool of values (nil, booleans, integers incl. 2^53 and i64 bounds, floats incl. +-0, infinities, NaN, strings, dates, date-times denoting one instant in different offsets, empty/blank markers, nested arrays and objects incl. 6-key objects in several insertion orders); every ordered pair through 7 API surfaces with (a,b), (b,a) and an independently rebuilt a; every ordered pair through templates; full table recomputed across rebuilds and fresh processes; distinct by construction; non-trivial = the pair is equal or ordered");
    report.assume("transitivity is not claimed by the statement and is not checked; NaN is exempt from reflexivity");
    laws(&report, &pool);
    templates(&report, &pool);
    derived_objects(&report, if tier.thorough() { 40 } else { 8 });
    if tier.thorough() {
        stability(&report, &pool, 200, 16);
    } else {
        stability(&report, &pool, 50, 4);
    }
    report.sample(json!({"a": pool[pool.len() - 6].1.to_json(), "b": pool[pool.len() - 5].1.to_json(), "note": "equal 6-key objects built in different insertion orders"}));
    report.finish()
}
