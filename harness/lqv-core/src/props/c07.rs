//! C07 — variable paths and literals denote the right value or fail loudly.

use crate::ast::*;
use crate::cfgs::{self, Config, Outcome};
use crate::cmp;
use crate::refl;
use crate::report::{FamilyStat, Report, Tier};
use crate::run::{par_range, seq_count, seq_decode};
use crate::val::V;
use serde_json::json;
use std::sync::atomic::{AtomicU64, Ordering};

fn arr(n: usize, base: i64) -> V {
    V::Arr((0..n as i64).map(|i| V::Int(base + i)).collect())
}

/// data roots: each is the caller's data object
fn roots(thorough: bool) -> Vec<V> {
    let mut v = Vec::new();
    let lens: Vec<usize> = if thorough { (0..=6).collect() } else { (0..=5).collect() };
    for len in lens {
        // x: array of `len` ints; o: object with colliding keys; deep: arrays inside objects inside arrays
        let deep = V::Arr(vec![
            V::obj(&[("a", arr(len, 100)), ("size", V::Int(99)), ("0", V::s("zero"))]),
            V::obj(&[("first", V::s("F")), ("last", V::s("L")), ("a", V::obj(&[("a", arr(2, 300))]))]),
            arr(len, 200),
            V::s("str"),
            V::Nil,
        ]);
        v.push(V::obj(&[
            ("x", arr(len, 10)),
            ("o", V::obj(&[("a", arr(len, 50)), ("size", V::s("own-size")), ("first", V::s("own-first")), ("1", V::s("one")), ("0", V::s("zero"))])),
            ("deep", deep),
            ("s", V::s("str")),
            ("u", V::s("h\u{e9}\u{e9}\u{1F44D}")),
            ("n", V::Int(7)),
            ("i0", V::Int(0)),
            ("i1", V::Int(1)),
            ("im1", V::Int(-1)),
            ("big", V::Int(len as i64)),
            ("k", V::s("a")),
            ("ks", V::s("size")),
            ("idx", V::obj(&[("p", V::Int(1)), ("q", V::s("a"))])),
            ("vnil", V::Nil),
        ]));
    }
    v
}

fn steps(len: i64) -> Vec<Step> {
    let mut v = vec![
        Step::Dot("a".into()),
        Step::Bracket(Expr::s("a")),
        Step::Dot("first".into()),
        Step::Dot("last".into()),
        Step::Dot("size".into()),
        Step::Bracket(Expr::s("size")),
        Step::Dot("nope".into()),
        Step::Bracket(Expr::s("0")),
        Step::Bracket(Expr::var("i0")),
        Step::Bracket(Expr::var("i1")),
        Step::Bracket(Expr::var("im1")),
        Step::Bracket(Expr::var("big")),
        Step::Bracket(Expr::var("k")),
        Step::Bracket(Expr::var("ks")),
        Step::Bracket(Expr::path("idx", &["p"])),
        Step::Bracket(Expr::path("idx", &["q"])),
        Step::Bracket(Expr::var("vnil")),
        Step::Bracket(Expr::var("undefined_index")),
        Step::Bracket(Expr::var("x")),
    ];
    for i in (-len - 2)..=(len + 1) {
        v.push(Step::Bracket(Expr::int(i)));
    }
    v
}

fn paths(report: &Report, thorough: bool, maxlen: u32) {
    let parser = cfgs::parser(Config::Stdlib);
    let roots = roots(thorough);
    let names = ["x", "o", "deep", "s", "u", "n", "vnil", "undefined_root", "size", "first"];
    let name = format!("paths/len<={maxlen}");
    let nontriv = AtomicU64::new(0);
    let errs = AtomicU64::new(0);
    let skipped0 = report.skipped.load(Ordering::Relaxed);
    let mut total_cases = 0u64;
    for (ri, root) in roots.iter().enumerate() {
        let len = match root {
            V::Obj(o) => match &o[0].1 {
                V::Arr(a) => a.len() as i64,
                _ => 0,
            },
            _ => 0,
        };
        let st = steps(len);
        let per = seq_count(st.len() as u64, maxlen - 1);
        let total = per * names.len() as u64;
        total_cases += total;
        let globals = root.to_object();
        let build = |i: u64| -> Vec<Stmt> {
            let nm = names[(i / per) as usize];
            let seq = seq_decode(i % per, st.len() as u64, maxlen - 1);
            vec![Stmt::OutDump(Expr::Var(nm.to_string(), seq.iter().map(|s| st[*s as usize].clone()).collect()))]
        };
        par_range(
            report,
            &format!("{name}/root{ri}"),
            total,
            |i| {
                let prog = build(i);
                let textp = print(&prog);
                report.eval();
                let expected = refl::run(&prog, root);
                let actual = match cfgs::parse_guarded(&parser, &textp) {
                    Err(pi) => Outcome::Panic(pi.describe()),
                    Ok(Err(e)) => Outcome::ParseErr(e),
                    Ok(Ok(t)) => match cfgs::render_guarded(&t, &globals) {
                        Err(pi) => Outcome::Panic(pi.describe()),
                        Ok(Err(e)) => Outcome::RenderErr(e),
                        Ok(Ok(s)) => Outcome::Ok(s),
                    },
                };
                if cmp::check(report, "C07", "path", i, || cmp::witness(&textp, root, &[]), &expected, &actual) {
                    match &expected {
                        Ok(s) => {
                            nontriv.fetch_add(1, Ordering::Relaxed);
                            if i % 31 == 0 {
                                report.outcome(s);
                            }
                        }
                        Err(_) => {
                            errs.fetch_add(1, Ordering::Relaxed);
                        }
                    }
                }
            },
            |i| cmp::witness(&print(&build(i)), root, &[]),
        );
        if ri == 3 {
            let p = build(total / 2 + 77);
            report.sample(json!({"family": name, "template": print(&p), "data": root.to_json(), "expected": format!("{:?}", refl::run(&p, root))}));
            let p = build(per + 4242);
            report.sample(json!({"family": name, "template": print(&p), "expected": format!("{:?}", refl::run(&p, root))}));
        }
    }
    report.nontrivial.fetch_add(nontriv.load(Ordering::Relaxed), Ordering::Relaxed);
    report.family(FamilyStat {
        name,
        cases: total_cases,
        nontrivial: nontriv.load(Ordering::Relaxed),
        skipped: report.skipped.load(Ordering::Relaxed) - skipped0,
        note: format!("roots={} (array lengths), resolving paths={} failing paths={} (must be Err)", roots.len(), nontriv.load(Ordering::Relaxed), errs.load(Ordering::Relaxed)),
    });
}

fn literals(report: &Report) {
    let parser = cfgs::parser(Config::Stdlib);
    let mut n = 0u64;
    let mut check_lit = |text: String, expect: Result<String, f64>| {
        n += 1;
        report.eval();
        let (actual, _) = cfgs::run_case(&parser, &text, &liquid::Object::new());
        let ok = match (&expect, &actual) {
            (Ok(s), Outcome::Ok(a)) => a == s,
            (Err(f), Outcome::Ok(a)) => a.parse::<f64>().map(|g| g == *f).unwrap_or(false),
            _ => false,
        };
        if !ok {
            let class = match &expect {
                Ok(_) => "exact",
                Err(_) => "decimal",
            };
            report.violation(
                &format!("C07|literal|{class}|{}", if matches!(actual, Outcome::Panic(_)) { "panic" } else { "wrong-value" }),
                n,
                json!({"kind":"render","template":text,"data":{},"partials":[],"expected":format!("{expect:?}"),"actual":actual.to_json()}),
                format!("literal template {text:?}: expected {expect:?}, got {}", actual.short()),
            );
        }
    };
    // integers: boundaries and a sweep
    let mut ints: Vec<i64> = vec![0, 1, -1, 9, 10, 99, 100, i64::MAX, i64::MAX - 1, i64::MAX - 2, i64::MIN, i64::MIN + 1, i64::MIN + 2];
    for sh in [7u32, 8, 15, 16, 31, 32, 52, 53, 62] {
        for d in [-1i64, 0, 1] {
            ints.push((1i64 << sh) + d);
            ints.push(-(1i64 << sh) + d);
        }
    }
    let mut x: i64 = 1;
    for k in 0..2000i64 {
        x = x.wrapping_mul(6364136223846793005).wrapping_add(1442695040888963407); // fixed LCG sweep (deterministic)
        ints.push(x >> (k % 60));
    }
    for i in &ints {
        check_lit(format!("{{{{ {i} }}}}"), Ok(i.to_string()));
        if *i >= 0 {
            check_lit(format!("{{{{ +{i} }}}}"), Ok(i.to_string()));
        }
        check_lit(format!("{{%- assign v = {i} -%}}{{{{ v }}}}"), Ok(i.to_string()));
    }
    // the same numbers spelled with leading zeros are the same numbers (decimal, never another radix)
    for v in (0i64..=20).chain([64, 77, 100, 777, 1234567, i64::MAX]) {
        for zeros in ["0", "00", "0000000000000000000000"] {
            check_lit(format!("{{{{ {zeros}{v} }}}}"), Ok(v.to_string()));
            check_lit(format!("{{{{ -{zeros}{v} }}}}"), Ok((-v).to_string()));
            check_lit(format!("{{%- assign v = {zeros}{v} -%}}{{{{ v | plus: 0 }}}}"), Ok(v.to_string()));
        }
    }
    // decimals with 1..6 fraction digits
    for ip in ["0", "1", "12", "123456", "-0", "-7", "+3", "007", "-010"] {
        for digits in 1..=6usize {
            for frac in ["5", "05", "25", "125", "000001", "999999", "1", "50"] {
                if frac.len() > digits {
                    continue;
                }
                let f = format!("{frac:0<digits$}");
                let lit = format!("{ip}.{f}");
                let want: f64 = lit.parse().unwrap();
                check_lit(format!("{{{{ {lit} }}}}"), Err(want));
            }
        }
    }
    // strings over the text alphabet minus the closing quote
    let alpha = ["a", " ", "\t", "\n", "{", "}", "%", "{{", "}}", "{%", "%}", "-", "|", ":", "é", "👍", "e\u{301}", "\\", "'", "\"", "\\n", "\\t", "n"];
    for q in ['\'', '"'] {
        let total = seq_count(alpha.len() as u64, 3);
        for i in 0..total {
            let seq = seq_decode(i, alpha.len() as u64, 3);
            let s: String = seq.iter().map(|k| alpha[*k as usize]).collect();
            if s.contains(q) {
                continue;
            }
            check_lit(format!("{{{{ {q}{s}{q} }}}}"), Ok(s.clone()));
        }
    }
    check_lit("{{ true }}".into(), Ok("true".into()));
    check_lit("{{ false }}".into(), Ok("false".into()));
    check_lit("{{ nil }}".into(), Ok("".into()));
    check_lit("{{ null }}".into(), Ok("".into()));
    report.nontrivial.fetch_add(n, Ordering::Relaxed);
    report.sample(json!({"family": "literals", "template": "{{ -9223372036854775808 }}", "expected": "-9223372036854775808"}));
    report.family(FamilyStat { name: "literals".into(), cases: n, nontrivial: n, skipped: 0, note: format!("integers={} (boundaries + 2000-value sweep, signed, via output and via assign), decimals 1..6 fraction digits, strings of <=3 tokens over a {}-token alphabet in both quote styles", ints.len(), alpha.len()) });
}


/// Keys that are awkward to spell: spaces, dots, brackets, quotes, non-ASCII, the empty key, keys
/// that look like numbers / literals / special names.  Each is reached through a bracket with a
/// string literal (either quote style), through a variable holding the key, two levels deep, and
/// where the identifier grammar allows through a dot; the value found must be exactly that key's
/// (every key maps to its own marker), and a key that is not there must fail.
fn awkward_keys(report: &Report) {
    let parser = cfgs::parser(Config::Stdlib);
    let keys = ["a b", "a.b", "a[0]", "é", "👍k", "", " ", "-1", "0", "1.5", "true", "nil", "empty", "first", "size", "last", "a-b", "_u", "A", "a", "it's", "say \"hi\"", "{{", "%}", "k|upcase", "o", "kv",
        // spellings of integers that are not the canonical one: as keys they are just text, all different from each other
        "7", "007", "+7", "07", "-0", "00", "+0", "1e1", "0x10", "1_000", "１"];
    let obj = V::Obj(keys.iter().enumerate().map(|(i, k)| (k.to_string(), V::Str(format!("v{i}")))).collect());
    let mut n = 0u64;
    let mut run1 = |text: String, data: &V, want: Result<String, ()>| {
        n += 1;
        report.eval();
        let (actual, _) = cfgs::run_case(&parser, &text, &data.to_object());
        let ok = match (&actual, &want) {
            (Outcome::Ok(s), Ok(w)) => s == w,
            (Outcome::RenderErr(_), Err(())) => true,
            _ => false,
        };
        if !ok {
            let class = match (&actual, &want) {
                (Outcome::Panic(_), _) => "panic",
                (Outcome::ParseErr(_), _) => "rejected",
                (Outcome::Ok(_), Err(())) => "expected-error-got-output",
                _ => "wrong-value",
            };
            report.violation(&format!("C07|awkward-key|{class}"), n, cmp::witness(&text, data, &[]), format!("{text} on keys {:?}: expected {want:?} got {}", keys, actual.short()));
        }
    };
    for (i, k) in keys.iter().enumerate() {
        let want = Ok(format!("v{i}"));
        let data = V::obj(&[("o", obj.clone()), ("kv", V::s(k)), ("w", V::obj(&[("o", obj.clone())])), ("ks", V::Arr(vec![V::s(k)]))]);
        if !k.contains('"') {
            run1(format!("{{{{ o[\"{k}\"] }}}}"), &data, want.clone());
            run1(format!("{{{{ w.o[\"{k}\"] }}}}"), &data, want.clone());
            run1(format!("{{{{ w[\"o\"][\"{k}\"] }}}}"), &data, want.clone());
        }
        if !k.contains('\'') {
            run1(format!("{{{{ o['{k}'] }}}}"), &data, want.clone());
        }
        run1("{{ o[kv] }}".to_string(), &data, want.clone());
        run1("{{ w.o[kv] }}".to_string(), &data, want.clone());
        run1("{{ o[ks[0]] }}".to_string(), &data, want.clone());
        run1("{% assign t = o[kv] %}{{ t }}".to_string(), &data, want.clone());
        run1("{% if o[kv] == 'nope' %}N{% else %}{{ o[kv] }}{% endif %}".to_string(), &data, want.clone());
        // dot form where the key is a plain identifier that is not a literal keyword
        if ["first", "size", "last", "a-b", "_u", "A", "a", "o", "kv"].contains(k) {
            run1(format!("{{{{ o.{k} }}}}"), &data, want.clone());
            run1(format!("{{{{ w.o.{k} }}}}"), &data, want.clone());
        }
    }
    // absent keys fail loudly, also when they are near misses of present ones
    let data = V::obj(&[("o", obj.clone())]);
    for k in ["zzz", "a  b", "A ", "É", "1", "1.50", "True", "a.b.c", "a_b", "v0", "0007", "+07", "-7", "7.0", "000", " 7", "7 "] {
        run1(format!("{{{{ o[\"{k}\"] }}}}"), &data, Err(()));
        run1("{{ o[kv] }}".to_string(), &V::obj(&[("o", obj.clone()), ("kv", V::s(k))]), Err(()));
    }
    report.nontrivial.fetch_add(n, Ordering::Relaxed);
    report.family(FamilyStat { name: "awkward keys".into(), cases: n, nontrivial: n, skipped: 0, note: format!("{} keys (spaces, dots, brackets, quotes, non-ASCII, empty, number-/literal-/special-looking) through bracket literals, variables, nested paths, assign, if, and dots where the grammar allows", keys.len()) });
}

pub fn run(tier: Tier) -> i32 {
    let report = Report::new("C07", tier, "exploration");
    report.set_rule("all paths of 1..L steps (root name + up to L-1 steps from a step alphabet: dot/bracket keys, every integer index in [-len-2,len+1], indices through variables and nested paths, first/last/size, missing keys, nil/undefined/array-valued indices) over 6-7 nested data roots; all listed literals; distinct by construction; non-trivial = the reference resolves the path to a value (the rest must fail with an error)");
    report.assume("values are observed through the harness `dump` filter so that nil, strings, numbers, arrays and objects are distinguishable");
    report.assume("string index on an array, first/last of objects and strings, size of non-string scalars are unspecified and skipped");
    paths(&report, tier.thorough(), if tier.thorough() { 5 } else { 4 });
    literals(&report);
    awkward_keys(&report);
    report.finish()
}
