//! C16 — escape / escape_once / url_encode / url_decode / strip_html are safe and invertible.

use crate::cfgs::{self, Config, Outcome};
use crate::report::{FamilyStat, Report, Tier};
use crate::run::{par_range, seq_count, seq_decode};
use crate::val::V;
use serde_json::json;
use std::sync::atomic::{AtomicU64, Ordering};

const ENTITIES: [(&str, char); 5] = [("&lt;", '<'), ("&gt;", '>'), ("&#39;", '\''), ("&quot;", '"'), ("&amp;", '&')];

fn string_of(alpha: &[char], idx: u64, k: u32) -> String {
    seq_decode(idx, alpha.len() as u64, k).iter().map(|i| alpha[*i as usize]).collect()
}

fn render(parser: &liquid::Parser, report: &Report, filter: &str, s: &str) -> Outcome {
    report.eval();
    let data = V::obj(&[("s", V::s(s))]);
    cfgs::run_case(parser, &format!("{{{{ s | {filter} }}}}"), &data.to_object()).0
}

/// every `&` starts one of the five entities; none of `< > " '` occurs
fn scan_escaped(out: &str) -> Result<(), String> {
    let mut rest = out;
    while let Some(c) = rest.chars().next() {
        match c {
            '<' | '>' | '"' | '\'' => return Err(format!("raw {c:?} in output")),
            '&' => match ENTITIES.iter().find(|(e, _)| rest.starts_with(e)) {
                Some((e, _)) => {
                    rest = &rest[e.len()..];
                    continue;
                }
                None => return Err("'&' that does not start one of the five entities".into()),
            },
            _ => {}
        }
        rest = &rest[c.len_utf8()..];
    }
    Ok(())
}

fn unescape(out: &str) -> String {
    let mut res = String::new();
    let mut rest = out;
    while let Some(c) = rest.chars().next() {
        if c == '&' {
            if let Some((e, ch)) = ENTITIES.iter().find(|(e, _)| rest.starts_with(e)) {
                res.push(*ch);
                rest = &rest[e.len()..];
                continue;
            }
        }
        res.push(c);
        rest = &rest[c.len_utf8()..];
    }
    res
}

/// independent reference for escape_once
fn ref_escape_once(s: &str) -> String {
    let mut res = String::new();
    let mut rest = s;
    while let Some(c) = rest.chars().next() {
        match c {
            '&' => {
                if let Some((e, _)) = ENTITIES.iter().find(|(e, _)| rest.starts_with(e)) {
                    res.push_str(e);
                    rest = &rest[e.len()..];
                    continue;
                }
                res.push_str("&amp;");
            }
            '<' => res.push_str("&lt;"),
            '>' => res.push_str("&gt;"),
            '"' => res.push_str("&quot;"),
            '\'' => res.push_str("&#39;"),
            other => res.push(other),
        }
        rest = &rest[c.len_utf8()..];
    }
    res
}

fn viol(report: &Report, filter: &str, clause: &str, idx: u64, s: &str, actual: &Outcome, detail: String) {
    let class = if let Outcome::Panic(m) = actual { format!("panic|{}", crate::report::norm_msg(m)) } else { clause.to_string() };
    report.violation(
        &format!("C16|{filter}|{class}"),
        idx,
        json!({"kind":"render","template":format!("{{{{ s | {filter} }}}}"),"data":{"s": s},"partials":[],"actual":actual.to_json()}),
        format!("{filter} on {s:?}: {detail}; got {}", actual.short()),
    );
}

fn tok_string(alpha: &[&str], idx: u64, k: u32) -> String {
    seq_decode(idx, alpha.len() as u64, k).iter().map(|i| alpha[*i as usize]).collect()
}

/// every upper/lower-case spelling of the four named entities (entity names are case-sensitive: `&AMP;`
/// is not something escape produces, so its `&` is a bare ampersand), plus glue
fn case_variants() -> Vec<String> {
    let mut v = Vec::new();
    for name in ["amp", "lt", "gt", "quot"] {
        let n = name.len();
        for mask in 0..(1u32 << n) {
            let word: String = name.chars().enumerate().map(|(i, c)| if mask >> i & 1 == 1 { c.to_ascii_uppercase() } else { c }).collect();
            v.push(format!("&{word};"));
        }
    }
    for g in ["&", ";", "x", "&#39;", "&#X27;", "<"] {
        v.push(g.to_string());
    }
    v
}

fn escapes(report: &Report, k: u32, mode: u8) {
    let tokens = mode == 1;
    let cases = case_variants();
    let parser = cfgs::parser(Config::Stdlib);
    let chars = ["<", ">", "&", "\"", "'", ";", "#", "a", "l", "t", "m", "p", " ", "é", "g", "q", "u", "o", "3", "9"];
    let toks = ["&amp;", "&lt;", "&gt;", "&#39;", "&quot;", "&", "<", ">", "\"", "'", ";", "amp", "lt", "#39", "quot", "a", "é", "&am", "&#3", "&quo", "€", "👍"];
    let case_refs: Vec<&str> = cases.iter().map(|s| s.as_str()).collect();
    let alpha: &[&str] = match mode {
        1 => &toks,
        2 => &case_refs,
        _ => &chars,
    };
    let string_of = |_: &[&str], i: u64, k: u32| tok_string(alpha, i, k);
    let total = seq_count(alpha.len() as u64, k);
    let _ = tokens;
    let name = format!("escape+escape_once/{}<={k}", ["len", "entity-tokens", "entity-case-variants"][mode as usize]);
    let nontriv = AtomicU64::new(0);
    par_range(
        report,
        &name,
        total,
        |i| {
            let s = string_of(&alpha, i, k);
            if s.contains('<') || s.contains('&') || s.contains('>') || s.contains('"') || s.contains('\'') {
                nontriv.fetch_add(1, Ordering::Relaxed);
            }
            let e = render(&parser, report, "escape", &s);
            match &e {
                Outcome::Ok(out) => {
                    if let Err(why) = scan_escaped(out) {
                        viol(report, "escape", "unsafe-output", i, &s, &e, why);
                    } else if unescape(out) != s {
                        viol(report, "escape", "not-invertible", i, &s, &e, format!("un-escaping gives {:?}", unescape(out)));
                    }
                    if i % 499 == 0 {
                        report.outcome(out);
                    }
                }
                _ => viol(report, "escape", "failed", i, &s, &e, "no output".into()),
            }
            let o = render(&parser, report, "escape_once", &s);
            match &o {
                Outcome::Ok(out) => {
                    if let Err(why) = scan_escaped(out) {
                        viol(report, "escape_once", "unsafe-output", i, &s, &o, why);
                    } else if *out != ref_escape_once(&s) {
                        viol(report, "escape_once", "existing-entities-changed-or-wrong", i, &s, &o, format!("reference gives {:?}", ref_escape_once(&s)));
                    }
                    let twice = render(&parser, report, "escape_once | escape_once", &s);
                    if twice != o {
                        viol(report, "escape_once", "not-idempotent", i, &s, &twice, format!("once = {out:?}"));
                    }
                }
                _ => viol(report, "escape_once", "failed", i, &s, &o, "no output".into()),
            }
        },
        |i| json!({"s": string_of(&alpha, i, k)}),
    );
    report.nontrivial.fetch_add(nontriv.load(Ordering::Relaxed), Ordering::Relaxed);
    report.sample(json!({"family": name, "template": "{{ s | escape_once }}", "data": {"s": "&amp;&lt&#39;;<"}}));
    report.family(FamilyStat { name, cases: total, nontrivial: nontriv.load(Ordering::Relaxed), skipped: 0, note: format!("alphabet of {} characters spelling every entity and near-entity", alpha.len()) });
}

/// independent reference decoder: '+' -> space, %XX -> byte, anything else verbatim
fn ref_url_decode(s: &str) -> Result<String, ()> {
    let b = s.as_bytes();
    let mut out = Vec::new();
    let mut i = 0;
    let hex = |c: u8| -> Option<u8> {
        match c {
            b'0'..=b'9' => Some(c - b'0'),
            b'a'..=b'f' => Some(c - b'a' + 10),
            b'A'..=b'F' => Some(c - b'A' + 10),
            _ => None,
        }
    };
    while i < b.len() {
        if b[i] == b'+' {
            out.push(b' ');
            i += 1;
        } else if b[i] == b'%' && i + 2 < b.len() + 0 && i + 2 <= b.len() - 1 + 0 {
            match (hex(b[i + 1]), hex(b[i + 2])) {
                (Some(h), Some(l)) => {
                    out.push(h * 16 + l);
                    i += 3;
                }
                _ => {
                    out.push(b[i]);
                    i += 1;
                }
            }
        } else {
            out.push(b[i]);
            i += 1;
        }
    }
    String::from_utf8(out).map_err(|_| ())
}

fn urls(report: &Report, k: u32) {
    let parser = cfgs::parser(Config::Stdlib);
    let alpha = ['%', '+', '2', 'F', 'f', ' ', '/', 'é', '👍', 'C', '3', 'a', '-', '.', '_', '~', '&', '=', 'E', '9'];
    let total = seq_count(alpha.len() as u64, k);
    let name = format!("url_encode+url_decode/len<={k}");
    let nontriv = AtomicU64::new(0);
    par_range(
        report,
        &name,
        total,
        |i| {
            let s = string_of(&alpha, i, k);
            let e = render(&parser, report, "url_encode", &s);
            match &e {
                Outcome::Ok(out) => {
                    let b = out.as_bytes();
                    let mut ok = true;
                    let mut j = 0;
                    while j < b.len() {
                        let c = b[j];
                        if c == b'%' {
                            if j + 2 >= b.len() + 0 && j + 2 > b.len() - 1 || !(b[j + 1].is_ascii_hexdigit() && b[j + 2].is_ascii_hexdigit()) {
                                ok = false;
                                break;
                            }
                            j += 3;
                            continue;
                        }
                        if !(c.is_ascii_alphanumeric() || c == b'-' || c == b'.' || c == b'_') {
                            ok = false;
                            break;
                        }
                        j += 1;
                    }
                    if !ok {
                        viol(report, "url_encode", "unsafe-output", i, &s, &e, "output outside [A-Za-z0-9._-] and %XX".into());
                    }
                    let back = render(&parser, report, "url_encode | url_decode", &s);
                    if back != Outcome::Ok(s.clone()) {
                        viol(report, "url_decode", "does-not-invert-url_encode", i, &s, &back, format!("encoded = {out:?}"));
                    }
                    if out != &s {
                        nontriv.fetch_add(1, Ordering::Relaxed);
                    }
                }
                _ => viol(report, "url_encode", "failed", i, &s, &e, "no output".into()),
            }
            let d = render(&parser, report, "url_decode", &s);
            match (ref_url_decode(&s), &d) {
                (Ok(want), Outcome::Ok(got)) if want == *got => {}
                (Err(()), Outcome::RenderErr(_)) => {}
                (want, _) => viol(report, "url_decode", "disagrees-with-reference-decoder", i, &s, &d, format!("reference {want:?}")),
            }
            if i % 499 == 0 {
                report.outcome(&d.short());
            }
        },
        |i| json!({"s": string_of(&alpha, i, k)}),
    );
    report.nontrivial.fetch_add(nontriv.load(Ordering::Relaxed), Ordering::Relaxed);
    report.sample(json!({"family": name, "template": "{{ s | url_decode }}", "data": {"s": "%C3%"}, "expected": "Err (malformed UTF-8) or per reference"}));
    report.family(FamilyStat { name, cases: total, nontrivial: nontriv.load(Ordering::Relaxed), skipped: 0, note: format!("alphabet of {} characters: %, +, hex digits, reserved and non-ASCII characters, partial UTF-8 escapes", alpha.len()) });
}

fn has_complete_tag(s: &str) -> bool {
    match s.find('<') {
        Some(p) => s[p..].contains('>'),
        None => false,
    }
}

fn strip(report: &Report, k: u32) {
    let parser = cfgs::parser(Config::Stdlib);
    let alpha = ['<', '>', '!', '-', '/', 's', 'c', 'r', 'i', 'p', 't', 'a', '\n', 'y', 'l', 'e', ' ', '"', '\''];
    let total = seq_count(alpha.len() as u64, k);
    let name = format!("strip_html/len<={k}");
    let nontriv = AtomicU64::new(0);
    par_range(
        report,
        &name,
        total,
        |i| {
            let s = string_of(&alpha, i, k);
            let o = render(&parser, report, "strip_html", &s);
            match &o {
                Outcome::Ok(out) => {
                    if has_complete_tag(out) {
                        viol(report, "strip_html", "complete-tag-survives", i, &s, &o, "output contains a complete <...> tag".into());
                    }
                    // nothing outside tags is invented: the output is a subsequence of the input
                    let mut it = s.chars();
                    if !out.chars().all(|c| it.any(|d| d == c)) {
                        viol(report, "strip_html", "output-not-a-subsequence", i, &s, &o, "characters invented".into());
                    }
                    if !has_complete_tag(&s) && *out != s {
                        viol(report, "strip_html", "text-without-tags-changed", i, &s, &o, "input has no complete tag".into());
                    }
                    if *out != s {
                        nontriv.fetch_add(1, Ordering::Relaxed);
                    }
                    if i % 499 == 0 {
                        report.outcome(out);
                    }
                }
                _ => viol(report, "strip_html", "failed", i, &s, &o, "no output".into()),
            }
        },
        |i| json!({"s": string_of(&alpha, i, k)}),
    );
    // long-ish look-alikes that need more than k characters
    let mut n = 0;
    for s in ["<script>x</script>y", "<SCRIPT a>x</ScRiPt>y<b>", "<style>a{}</style>z", "<!-- c -->d", "<!--<a>-->e", "<scr<script>x</script>ipt>y", "a<\nb\n>c", "<<a>>", "<a><b", "x<!---->y<!-- -", "<script><script>a</script></script>b", "<img src=x onerror=alert(1) \">", "<a '>x</a>", "<a title=\"a > b\">x</a>", "<a title='>' \">x", "<b \"'>y"] {
        n += 1;
        let o = render(&parser, report, "strip_html", s);
        match &o {
            Outcome::Ok(out) if !has_complete_tag(out) => {}
            _ => viol(report, "strip_html", "complete-tag-survives", n, s, &o, "hand-picked look-alike".into()),
        }
    }
    report.nontrivial.fetch_add(nontriv.load(Ordering::Relaxed), Ordering::Relaxed);
    report.sample(json!({"family": name, "template": "{{ s | strip_html }}", "data": {"s": "<<a>>"}}));
    report.family(FamilyStat { name, cases: total + n, nontrivial: nontriv.load(Ordering::Relaxed), skipped: 0, note: format!("alphabet of {} characters spelling script/style/comment openers and closers; + {n} longer look-alikes", alpha.len()) });
}

pub fn run(tier: Tier) -> i32 {
    let report = Report::new("C16", tier, "exploration");
    report.set_rule("all strings up to length k over the three alphabets of the statement (extended with the letters of every entity name, more hex digits and reserved characters); every string is escaped, escaped once (and twice), url-encoded, decoded, round-tripped and tag-stripped; distinct by construction; non-trivial = the filter had to change the input");
    report.assume("url_decode reference: '+' -> space, %XX -> byte, malformed escapes verbatim, Err iff the decoded bytes are not UTF-8");
    let t = tier.thorough();
    escapes(&report, if t { 5 } else { 4 }, 0);
    escapes(&report, if t { 5 } else { 4 }, 1);
    escapes(&report, if t { 3 } else { 2 }, 2);
    urls(&report, if t { 5 } else { 4 });
    strip(&report, if t { 6 } else { 5 });
    report.finish()
}
