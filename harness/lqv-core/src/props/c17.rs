//! C17 — dates: parse/print round-trips and strftime directives mean what they say.
//! Exhaustive grid of timestamps x formats against an independent calendar.

use crate::cfgs::{self, Config, Outcome};
use crate::report::{FamilyStat, Report, Tier};
use crate::run::{guard, par_range};
use crate::val::V;
use liquid_core::model::DateTime;
use serde_json::json;
use std::sync::atomic::Ordering;

// ------------------------------------------------------------------ independent calendar

#[derive(Clone, Copy, Debug, PartialEq)]
pub struct Ts {
    pub y: i32,
    pub mo: u8,
    pub d: u8,
    pub h: u8,
    pub mi: u8,
    pub s: u8,
    pub ns: u32,
    /// offset in seconds east of UTC
    pub off: i32,
}

const MONTHS: [&str; 12] = ["January", "February", "March", "April", "May", "June", "July", "August", "September", "October", "November", "December"];
/// index 0 = Sunday
const DAYS: [&str; 7] = ["Sunday", "Monday", "Tuesday", "Wednesday", "Thursday", "Friday", "Saturday"];

fn is_leap(y: i32) -> bool {
    (y % 4 == 0 && y % 100 != 0) || y % 400 == 0
}

fn days_in_month(y: i32, m: u8) -> u8 {
    match m {
        1 | 3 | 5 | 7 | 8 | 10 | 12 => 31,
        4 | 6 | 9 | 11 => 30,
        _ => {
            if is_leap(y) {
                29
            } else {
                28
            }
        }
    }
}

/// days since 1970-01-01 (proleptic Gregorian), by counting
pub fn days_from_civil(y: i32, m: u8, d: u8) -> i64 {
    let y0 = y as i64 - 1;
    // days before year y since year 1
    let before = y0 * 365 + y0 / 4 - y0 / 100 + y0 / 400;
    let mut yd = 0i64;
    for mm in 1..m {
        yd += days_in_month(y, mm) as i64;
    }
    let abs = before + yd + d as i64 - 1; // days since 0001-01-01
    // 1970-01-01 is day 719162 since 0001-01-01
    abs - 719_162
}

impl Ts {
    /// The instant `utc` (nanoseconds since the epoch) as a wall clock in the offset `off`;
    /// found by search over the boring forward function (no second calendar to get wrong).
    pub fn from_utc_nanos(utc: i128, off: i32) -> Option<Ts> {
        let ns = utc.rem_euclid(1_000_000_000) as u32;
        let local = (utc - ns as i128) / 1_000_000_000 + off as i128; // seconds since epoch, local wall clock
        let days = local.div_euclid(86_400) as i64;
        let sod = local.rem_euclid(86_400) as i64;
        // year by bracketing, then month and day by the forward function
        let mut y = 1970 + (days / 366) as i32;
        while days_from_civil(y + 1, 1, 1) <= days {
            y += 1;
        }
        while days_from_civil(y, 1, 1) > days {
            y -= 1;
        }
        let mut mo = 1u8;
        while mo < 12 && days_from_civil(y, mo + 1, 1) <= days {
            mo += 1;
        }
        let d = (days - days_from_civil(y, mo, 1) + 1) as u8;
        if !(1..=9999).contains(&y) {
            return None;
        }
        let t = Ts { y, mo, d, h: (sod / 3600) as u8, mi: (sod % 3600 / 60) as u8, s: (sod % 60) as u8, ns, off };
        (t.utc_nanos() == utc).then_some(t)
    }
    /// 0 = Sunday
    fn wday(&self) -> i64 {
        (days_from_civil(self.y, self.mo, self.d) + 4).rem_euclid(7)
    }
    /// 1-based day of year
    fn yday(&self) -> i64 {
        days_from_civil(self.y, self.mo, self.d) - days_from_civil(self.y, 1, 1) + 1
    }
    fn unix(&self) -> i64 {
        days_from_civil(self.y, self.mo, self.d) * 86_400 + self.h as i64 * 3600 + self.mi as i64 * 60 + self.s as i64 - self.off as i64
    }
    pub fn utc_nanos(&self) -> i128 {
        self.unix() as i128 * 1_000_000_000 + self.ns as i128
    }
    /// ISO 8601 week date: (year, week)
    fn iso(&self) -> (i32, i64) {
        let wd = (self.wday() + 6) % 7; // Monday = 0
        let yd = self.yday(); // 1-based
        let week = (yd - wd - 1 + 10) / 7; // (ordinal - weekday(1..7) + 10) / 7
        if week < 1 {
            // last week of the previous year
            let py = self.y - 1;
            let p = Ts { y: py, mo: 12, d: 31, ..*self };
            return (py, p.iso().1);
        }
        if week == 53 {
            // week 53 exists only if 31 Dec is Thursday, or Friday in ... : check via Jan 1 of next year
            let days_in_year = if is_leap(self.y) { 366 } else { 365 };
            if yd - wd - 1 + 4 > days_in_year {
                // the Thursday of this week falls in the next year
                return (self.y + 1, 1);
            }
        }
        (self.y, week)
    }
    pub fn display(&self) -> String {
        let sign = if self.off < 0 { '-' } else { '+' };
        let a = self.off.abs();
        let sub = if self.ns == 0 {
            String::new()
        } else {
            let s = format!("{:09}", self.ns);
            format!(".{}", s.trim_end_matches('0'))
        };
        format!("{:04}-{:02}-{:02} {:02}:{:02}:{:02}{} {}{:02}{:02}", self.y, self.mo, self.d, self.h, self.mi, self.s, sub, sign, a / 3600, a % 3600 / 60)
    }
}

#[derive(Clone, Copy, PartialEq, Debug)]
enum Pad {
    Default,
    Zero,
    Space,
}
#[derive(Clone, Copy, PartialEq, Debug)]
enum Case {
    Default,
    Upper,
    Change,
}

/// `Ok((text, exact))`: `exact == false` marks directives whose precise layout
/// the check tolerates (flags/width on the zone directives, `#`).
pub fn ref_format(ts: &Ts, fmt: &str) -> Result<(String, bool), ()> {
    let chars: Vec<char> = fmt.chars().collect();
    let mut out = String::new();
    let mut exact = true;
    let mut i = 0;
    while i < chars.len() {
        if chars[i] != '%' {
            out.push(chars[i]);
            i += 1;
            continue;
        }
        let start = i;
        i += 1;
        let mut use_pad = true;
        let mut pad = Pad::Default;
        let mut case = Case::Default;
        loop {
            match chars.get(i) {
                None => return Err(()),
                Some('-') => use_pad = false,
                Some('_') => pad = Pad::Space,
                Some('0') => pad = Pad::Zero,
                Some('^') => case = Case::Upper,
                Some('#') => {
                    case = Case::Change;
                    exact = false;
                }
                Some(_) => break,
            }
            i += 1;
        }
        let mut width: Option<usize> = None;
        if chars[i].is_ascii_digit() {
            let ws = i;
            while i < chars.len() && chars[i].is_ascii_digit() {
                i += 1;
            }
            if i >= chars.len() {
                return Err(());
            }
            let w: String = chars[ws..i].iter().collect();
            match w.parse::<usize>() {
                Ok(w) => width = Some(w),
                Err(_) => return Err(()),
            }
        }
        let mut c = chars[i];
        i += 1;
        if c == 'E' || c == 'O' {
            match chars.get(i) {
                None => return Err(()),
                Some(n) => {
                    c = *n;
                    i += 1;
                }
            }
        }
        let num = |out: &mut String, v: i64, defw: usize, pad: Pad| {
            if !use_pad {
                out.push_str(&v.to_string());
                return;
            }
            let w = width.unwrap_or(defw + if v < 0 { 1 } else { 0 });
            let body = v.abs().to_string();
            let len = body.len() + if v < 0 { 1 } else { 0 };
            let fill = w.saturating_sub(len);
            match pad {
                Pad::Space => {
                    out.extend(std::iter::repeat(' ').take(fill));
                    if v < 0 {
                        out.push('-');
                    }
                }
                _ => {
                    if v < 0 {
                        out.push('-');
                    }
                    out.extend(std::iter::repeat('0').take(fill));
                }
            }
            out.push_str(&body);
        };
        let space_default = |p: Pad| if p == Pad::Default { Pad::Space } else { p };
        let alpha = |out: &mut String, s: &str, case: Case| {
            if use_pad {
                if let Some(w) = width {
                    let ch = if pad == Pad::Zero { '0' } else { ' ' };
                    out.extend(std::iter::repeat(ch).take(w.saturating_sub(s.chars().count())));
                }
            }
            if case != Case::Default {
                out.push_str(&s.to_uppercase());
            } else {
                out.push_str(s);
            }
        };
        let comp = |out: &mut String, s: String, natural: usize, case: Case| {
            if let Some(w) = width {
                let ch = if pad == Pad::Zero { '0' } else { ' ' };
                out.extend(std::iter::repeat(ch).take(w.saturating_sub(natural)));
            }
            if case != Case::Default {
                out.push_str(&s.to_uppercase());
            } else {
                out.push_str(&s);
            }
        };
        let h12 = match ts.h {
            0 | 12 => 12,
            h if h < 12 => h,
            h => h - 12,
        } as i64;
        let (iy, iw) = ts.iso();
        let mon = MONTHS[ts.mo as usize - 1];
        let day = DAYS[ts.wday() as usize];
        match c {
            'Y' => num(&mut out, ts.y as i64, 4, pad),
            'C' => num(&mut out, ts.y as i64 / 100, 2, pad),
            'y' => num(&mut out, ts.y as i64 % 100, 2, pad),
            'm' => num(&mut out, ts.mo as i64, 2, pad),
            'd' => num(&mut out, ts.d as i64, 2, pad),
            'e' => num(&mut out, ts.d as i64, 2, space_default(pad)),
            'j' => num(&mut out, ts.yday(), 3, pad),
            'H' => num(&mut out, ts.h as i64, 2, pad),
            'k' => num(&mut out, ts.h as i64, 2, space_default(pad)),
            'I' => num(&mut out, h12, 2, pad),
            'l' => num(&mut out, h12, 2, space_default(pad)),
            'M' => num(&mut out, ts.mi as i64, 2, pad),
            'S' => num(&mut out, ts.s as i64, 2, pad),
            'w' => num(&mut out, ts.wday(), 0, pad),
            'u' => num(&mut out, if ts.wday() == 0 { 7 } else { ts.wday() }, 0, pad),
            'U' => num(&mut out, (ts.yday() - 1 + 7 - ts.wday()) / 7, 2, pad),
            'W' => num(&mut out, (ts.yday() - 1 + 7 - (ts.wday() + 6) % 7) / 7, 2, pad),
            'G' => num(&mut out, iy as i64, 4, pad),
            'g' => num(&mut out, iy as i64 % 100, 2, pad),
            'V' => num(&mut out, iw, 2, pad),
            's' => num(&mut out, ts.unix(), 0, pad),
            'b' | 'h' => alpha(&mut out, &mon[..3], case),
            'B' => alpha(&mut out, mon, case),
            'a' => alpha(&mut out, &day[..3], case),
            'A' => alpha(&mut out, day, case),
            'p' | 'P' => {
                let am = ts.h < 12;
                let upper = (c == 'p' && case != Case::Change) || (c == 'P' && case != Case::Default);
                let s = match (upper, am) {
                    (true, true) => "AM",
                    (true, false) => "PM",
                    (false, true) => "am",
                    (false, false) => "pm",
                };
                alpha(&mut out, s, Case::Default);
            }
            'F' => comp(&mut out, format!("{:04}-{:02}-{:02}", ts.y, ts.mo, ts.d), 10, case),
            'v' => comp(&mut out, format!("{:>2}-{}-{:04}", ts.d, &mon[..3], ts.y), 11, Case::Upper),
            'R' => comp(&mut out, format!("{:02}:{:02}", ts.h, ts.mi), 5, case),
            'D' | 'x' => comp(&mut out, format!("{:02}/{:02}/{:02}", ts.mo, ts.d, ts.y % 100), 8, case),
            'T' | 'X' => comp(&mut out, format!("{:02}:{:02}:{:02}", ts.h, ts.mi, ts.s), 8, case),
            'r' => comp(&mut out, format!("{:02}:{:02}:{:02} {}", h12, ts.mi, ts.s, if ts.h < 12 { "AM" } else { "PM" }), 11, case),
            'c' => comp(&mut out, format!("{} {} {:>2} {:02}:{:02}:{:02} {:04}", &day[..3], &mon[..3], ts.d, ts.h, ts.mi, ts.s, ts.y), 24, case),
            '%' | 'n' | 't' => {
                if use_pad {
                    if let Some(w) = width {
                        let ch = if pad == Pad::Zero { '0' } else { ' ' };
                        out.extend(std::iter::repeat(ch).take(w.saturating_sub(1)));
                    }
                }
                out.push(match c {
                    '%' => '%',
                    'n' => '\n',
                    _ => '\t',
                });
            }
            'L' | 'N' => {
                let digits = width.unwrap_or(if c == 'L' { 3 } else { 9 });
                let nine = format!("{:09}", ts.ns);
                if digits == 0 {
                    exact = false;
                } else if digits <= 9 {
                    out.push_str(&nine[..digits]);
                } else {
                    out.push_str(&nine);
                    out.extend(std::iter::repeat('0').take(digits - 9));
                }
            }
            'z' | 'Z' | ':' => {
                let mut colons = 0;
                let mut ok = true;
                if c == ':' {
                    colons = 1;
                    match chars.get(i) {
                        Some('z') => i += 1,
                        Some(':') => {
                            i += 1;
                            colons = 2;
                            match chars.get(i) {
                                Some('z') => i += 1,
                                Some(_) => {
                                    i += 1;
                                    ok = false;
                                }
                                None => ok = false,
                            }
                        }
                        Some(_) => {
                            i += 1;
                            ok = false;
                        }
                        None => ok = false,
                    }
                }
                if !ok {
                    out.extend(chars[start..i].iter());
                    continue;
                }
                let sign = if ts.off < 0 { '-' } else { '+' };
                let a = ts.off.abs();
                let (hh, mm, ss) = (a / 3600, a % 3600 / 60, a % 60);
                let hm_sep = c == 'Z' || c == ':';
                let mut s = format!("{sign}{hh:02}{}{mm:02}", if hm_sep { ":" } else { "" });
                if colons == 2 {
                    s.push_str(&format!(":{ss:02}"));
                }
                if width.is_some() || pad != Pad::Default || !use_pad {
                    exact = false;
                    // zero-fill after the sign up to the width (the module's documented layout)
                    let w = width.unwrap_or(0);
                    if pad != Pad::Space && w > s.len() {
                        let fill = w - s.len();
                        s = format!("{sign}{}{}", "0".repeat(fill), &s[1..]);
                    }
                }
                out.push_str(&s);
            }
            _ => {
                out.extend(chars[start..i].iter());
            }
        }
    }
    Ok((out, exact))
}

// ------------------------------------------------------------------ grids

fn offsets() -> Vec<i32> {
    vec![-12 * 3600, -(9 * 3600 + 1800), -(3 * 3600 + 1800), 0, 3600, 5 * 3600 + 1800, 5 * 3600 + 2700, 12 * 3600 + 2700, 14 * 3600]
}

fn dates(thorough: bool) -> Vec<(i32, u8, u8)> {
    let mut years: Vec<i32> = if thorough { (1970..=2040).collect() } else { vec![1970, 1971, 1972, 1999, 2000, 2001, 2004, 2009, 2010, 2015, 2016, 2020, 2021, 2024, 2026, 2032, 2037, 2038, 2040] };
    years.extend([1, 1000, 9999, 1900, 2100]);
    let mut v = Vec::new();
    for y in years {
        for d in 1..=7u8 {
            v.push((y, 1, d));
        }
        for d in 25..=31u8 {
            v.push((y, 12, d));
        }
        v.push((y, 2, 28));
        if is_leap(y) {
            v.push((y, 2, 29));
        }
        v.push((y, 3, 1));
        v.push((y, 6, 15));
    }
    v
}

fn grid(thorough: bool) -> Vec<Ts> {
    let mut v = Vec::new();
    let hours: Vec<u8> = vec![0, 11, 12, 23];
    let subs: Vec<u32> = vec![0, 5_000_000, 1_000, 1, 500_000_000, 666_777_888, 90_000];
    for (di, (y, mo, d)) in dates(thorough).into_iter().enumerate() {
        for (hi, h) in hours.iter().enumerate() {
            // vary the remaining fields deterministically instead of taking the full product
            for (oi, off) in offsets().into_iter().enumerate() {
                let k = di + hi * 3 + oi;
                if !thorough && (k % 3 != 0) {
                    continue;
                }
                v.push(Ts { y, mo, d, h: *h, mi: [0, 7, 59][k % 3], s: [0, 37, 59][(k / 3) % 3], ns: subs[k % subs.len()], off });
            }
        }
    }
    // every hour, every sub-second value, on a sub-grid
    for h in 0..24u8 {
        for ns in &subs {
            v.push(Ts { y: 2020, mo: 2, d: 29, h, mi: 30, s: 1, ns: *ns, off: 5 * 3600 + 1800 });
            v.push(Ts { y: 1999, mo: 12, d: 31, h, mi: 59, s: 59, ns: *ns, off: -(3 * 3600 + 1800) });
        }
    }
    v
}

fn make(ts: &Ts) -> Option<DateTime> {
    DateTime::from_str(&ts.display())
}

const DIRECTIVES: &str = "YCymdejHkIlMSwuUWGgVsbhBaApPFvRDxTXrc%ntLNzZ";

fn formats_basic() -> Vec<String> {
    let mut v: Vec<String> = DIRECTIVES.chars().map(|c| format!("%{c}")).collect();
    v.extend(["%:z", "%::z", "%Ey", "%OH", "%EY", "%3N", "%6N", "%1N", "%12N", "%2L", "%4L"].iter().map(|s| s.to_string()));
    v
}

fn formats_flagged() -> Vec<String> {
    let mut v = Vec::new();
    let mut dirs: Vec<String> = DIRECTIVES.chars().map(|c| c.to_string()).collect();
    dirs.push(":z".into());
    dirs.push("::z".into());
    for d in &dirs {
        for flag in ["", "-", "_", "0", "^", "#", "-_", "_0", "^_"] {
            for width in ["", "1", "3", "6", "12"] {
                if flag == "0" && width.is_empty() {
                    // "%0X" = flag without width: fine
                }
                v.push(format!("%{flag}{width}{d}"));
            }
        }
    }
    // unknown directives, modifiers, literals around
    for u in ["%q", "%Q", "%é", "%👍", "%-5q", "%_0-^#^q", "%:b", "%:", "%::", "%::x", "%:é", "%::é", "%:::é", "%:👍", "%-:é", "%10:€", "%::€z", "é%:é", "%Eq", "%10é", "a%%b", "é%Yé", "%Y-%m-%dT%H:%M:%S.%L%:z", "%e-%^b-%Y", "%%%Y%%"] {
        v.push(u.to_string());
    }
    v
}

fn formats_errors() -> Vec<&'static str> {
    vec!["%", "x%", "%5", "%-", "%_0", "%010", "%E", "%9E", "%O", "%Y%", "%18446744073709551616d", "%99999999999999999999999Y", "%-_^#"]
}

fn formats_concat() -> Vec<String> {
    let set = ["%Y", "%m", "%e", "%j", "%H", "%I", "%p", "%L", "%z", "%a", "%U", "%V", "-", "%%"];
    let mut v = Vec::new();
    for a in set {
        for b in set {
            for c in set {
                v.push(format!("{a}{b}{c}"));
            }
        }
    }
    v
}

// ------------------------------------------------------------------ self test against the module's own tables

fn self_test() -> Result<usize, String> {
    let simple = Ts { y: 2022, mo: 11, d: 3, h: 7, mi: 56, s: 37, ns: 666_777_888, off: 6 * 3600 };
    let iso = Ts { y: 2007, mo: 11, d: 19, h: 8, mi: 37, s: 48, ns: 0, off: -6 * 3600 };
    let up = Ts { y: 2007, mo: 1, d: 19, h: 8, mi: 37, s: 48, ns: 0, off: -6 * 3600 };
    let ch = Ts { y: 2007, mo: 12, d: 19, h: 18, mi: 37, s: 48, ns: 0, off: 8 * 3600 };
    let padd = Ts { y: 2022, mo: 1, d: 3, h: 7, mi: 56, s: 37, ns: 666_777_888, off: 6 * 3600 };
    let rows: Vec<(&Ts, &str, &str)> = vec![
        (&simple, "%Y", "2022"), (&simple, "%C", "20"), (&simple, "%y", "22"), (&simple, "%m", "11"), (&simple, "%B", "November"), (&simple, "%b", "Nov"), (&simple, "%h", "Nov"),
        (&simple, "%d", "03"), (&simple, "%e", " 3"), (&simple, "%j", "307"), (&simple, "%H", "07"), (&simple, "%k", " 7"), (&simple, "%I", "07"), (&simple, "%l", " 7"),
        (&simple, "%P", "am"), (&simple, "%p", "AM"), (&simple, "%M", "56"), (&simple, "%S", "37"), (&simple, "%L", "666"), (&simple, "%N", "666777888"), (&simple, "%1N", "6"),
        (&simple, "%3N", "666"), (&simple, "%6N", "666777"), (&simple, "%9N", "666777888"), (&simple, "%12N", "666777888000"), (&simple, "%24N", "666777888000000000000000"),
        (&simple, "%z", "+0600"), (&simple, "%Z", "+06:00"), (&simple, "%A", "Thursday"), (&simple, "%a", "Thu"), (&simple, "%u", "4"), (&simple, "%w", "4"), (&simple, "%G", "2022"),
        (&simple, "%g", "22"), (&simple, "%V", "44"), (&simple, "%U", "44"), (&simple, "%W", "44"), (&simple, "%s", "1667440597"), (&simple, "%n", "\n"), (&simple, "%t", "\t"), (&simple, "%%", "%"),
        (&simple, "%c", "Thu Nov  3 07:56:37 2022"), (&simple, "%D", "11/03/22"), (&simple, "%F", "2022-11-03"), (&simple, "%v", " 3-NOV-2022"), (&simple, "%x", "11/03/22"), (&simple, "%T", "07:56:37"),
        (&simple, "%X", "07:56:37"), (&simple, "%r", "07:56:37 AM"), (&simple, "%R", "07:56"),
        (&iso, "%Y%m%d", "20071119"), (&iso, "%Y%j", "2007323"), (&iso, "%GW%V%u", "2007W471"), (&iso, "%G-W%V-%u", "2007-W47-1"), (&iso, "%H%M%S,%L", "083748,000"), (&iso, "%T%:z", "08:37:48-06:00"),
        (&iso, "%FT%T%:z", "2007-11-19T08:37:48-06:00"), (&iso, "%Y%jT%H%MZ", "2007323T0837Z"), (&iso, "%G-W%V-%uT%R%:z", "2007-W47-1T08:37-06:00"),
        (&up, "%^b", "JAN"), (&up, "%^h", "JAN"), (&up, "%^B", "JANUARY"), (&up, "%^a", "FRI"), (&up, "%^A", "FRIDAY"), (&up, "%^p", "AM"), (&up, "%^P", "AM"), (&up, "%^v", "19-JAN-2007"),
        (&ch, "%#b", "DEC"), (&ch, "%#B", "DECEMBER"), (&ch, "%#a", "WED"), (&ch, "%#A", "WEDNESDAY"), (&ch, "%#p", "pm"), (&ch, "%#P", "PM"), (&ch, "%#v", "19-DEC-2007"),
        (&padd, "%8Y", "00002022"), (&padd, "%_11Y", "       2022"), (&padd, "%1C", "20"), (&padd, "%3C", "020"), (&padd, "%_4C", "  20"), (&padd, "%_5y", "   22"), (&padd, "%-_5y", "22"), (&padd, "%_-5y", "22"),
        (&padd, "%-5y", "22"), (&padd, "%13m", "0000000000001"), (&padd, "%_13m", "            1"), (&padd, "%7B", "January"), (&padd, "%8B", " January"), (&padd, "%_8B", " January"), (&padd, "%08B", "0January"),
        (&padd, "%7b", "    Jan"), (&padd, "%07h", "0000Jan"), (&padd, "%-07h", "Jan"), (&padd, "%2d", "03"), (&padd, "%3d", "003"), (&padd, "%_5d", "    3"), (&padd, "%3e", "  3"), (&padd, "%_3e", "  3"),
        (&padd, "%03e", "003"), (&padd, "%j", "003"), (&padd, "%_j", "  3"), (&padd, "%1j", "3"), (&padd, "%2j", "03"), (&padd, "%_2j", " 3"), (&padd, "%_H", " 7"), (&padd, "%0k", "07"), (&padd, "%_I", " 7"),
        (&padd, "%04l", "0007"), (&padd, "%4P", "  am"), (&padd, "%04p", "00AM"), (&padd, "%01p", "AM"), (&padd, "%9M", "000000056"), (&padd, "%_10S", "        37"), (&padd, "%_20L", "66677788800000000000"),
        (&padd, "%-_20L", "66677788800000000000"), (&padd, "%_N", "666777888"), (&padd, "%_1N", "6"), (&padd, "%_12N", "666777888000"), (&padd, "%1z", "+0600"), (&padd, "%5z", "+0600"), (&padd, "%6z", "+00600"),
        (&padd, "%10z", "+000000600"), (&padd, "%10Z", "+000006:00"), (&padd, "%10::z", "+006:00:00"), (&padd, "%4A", "Monday"), (&padd, "%10A", "    Monday"), (&padd, "%10a", "       Mon"), (&padd, "%-10a", "Mon"),
        (&padd, "%04a", "0Mon"), (&padd, "%05u", "00001"), (&padd, "%_5w", "    1"), (&padd, "%13G", "0000000002022"), (&padd, "%_13g", "           22"), (&padd, "%V", "01"), (&padd, "%U", "01"), (&padd, "%W", "01"),
        (&padd, "%10s", "1641174997"), (&padd, "%20s", "00000000001641174997"), (&padd, "%2n", " \n"), (&padd, "%05t", "0000\t"), (&padd, "%10%", "         %"), (&padd, "%30c", "      Mon Jan  3 07:56:37 2022"),
        (&padd, "%8D", "01/03/22"), (&padd, "%012F", "002022-01-03"), (&padd, "%012v", "0 3-JAN-2022"), (&padd, "%3x", "01/03/22"), (&padd, "%11T", "   07:56:37"), (&padd, "%8X", "07:56:37"), (&padd, "%10X", "  07:56:37"),
        (&padd, "%010X", "0007:56:37"), (&padd, "%12r", " 07:56:37 AM"), (&padd, "%-6R", " 07:56"),
        (&padd, "%:b", "%:b"), (&padd, "%-_::xX%Y", "%-_::xX2022"), (&padd, "%_0-^#^q", "%_0-^#^q"),
    ];
    for (ts, f, want) in &rows {
        match ref_format(ts, f) {
            Ok((got, _)) if got == *want => {}
            other => return Err(format!("reference calendar disagrees with the module's own table on {f:?}: want {want:?} got {other:?}")),
        }
    }
    for f in ["%9", "%9E", "%010", "X%", "%18446744073709551616d"] {
        if ref_format(&simple, f).is_ok() {
            return Err(format!("reference accepts malformed format {f:?}"));
        }
    }
    // calendar spot checks (known dates)
    let known = [((2000, 1, 1), 6, 52, 1999), ((2020, 12, 31), 4, 53, 2020), ((2021, 1, 3), 0, 53, 2020), ((2024, 12, 30), 1, 1, 2025), ((1970, 1, 1), 4, 1, 1970), ((2016, 1, 1), 5, 53, 2015)];
    for ((y, m, d), wd, wk, iy) in known {
        let t = Ts { y, mo: m, d, h: 0, mi: 0, s: 0, ns: 0, off: 0 };
        if t.wday() != wd || t.iso() != (iy, wk) {
            return Err(format!("reference calendar wrong for {y}-{m}-{d}: wday {} iso {:?}", t.wday(), t.iso()));
        }
    }
    Ok(rows.len())
}

// ------------------------------------------------------------------ checks

/// splits a format into literal runs and single directives (`%` + flags + width + [EO] + char, `%:z`, `%::z`)
fn split_directives(f: &str) -> Vec<String> {
    let c: Vec<char> = f.chars().collect();
    let mut out = Vec::new();
    let mut i = 0;
    while i < c.len() {
        if c[i] != '%' {
            let st = i;
            while i < c.len() && c[i] != '%' {
                i += 1;
            }
            out.push(c[st..i].iter().collect());
            continue;
        }
        let st = i;
        i += 1;
        while i < c.len() && "-_0^#".contains(c[i]) {
            i += 1;
        }
        while i < c.len() && c[i].is_ascii_digit() {
            i += 1;
        }
        if i < c.len() && (c[i] == 'E' || c[i] == 'O') {
            i += 1;
        }
        while i < c.len() && c[i] == ':' {
            i += 1;
        }
        if i < c.len() {
            i += 1;
        }
        out.push(c[st..i].iter().collect());
    }
    out
}

fn strip_pad(s: &str) -> String {
    s.chars().filter(|c| *c != ' ' && *c != '0').collect()
}

fn check_format(report: &Report, idx: u64, ts: &Ts, dt: &DateTime, f: &str) {
    report.eval();
    let got = guard(|| dt.format(f).map_err(|e| e.to_string()));
    let w = || json!({"kind":"date-format","timestamp":ts.display(),"format":f});
    let want = ref_format(ts, f);
    // blame the directive(s) that also differ when formatted alone (keeps signatures per directive)
    let dir: String = {
        let mut culprits: Vec<String> = Vec::new();
        for t in split_directives(f) {
            if !t.starts_with('%') {
                continue;
            }
            let a = dt.format(&t).ok();
            let b = ref_format(ts, &t).ok();
            let same = match (&a, &b) {
                (Some(x), Some((y, true))) => x == y,
                (Some(x), Some((y, false))) => strip_pad(x).to_lowercase() == strip_pad(y).to_lowercase(),
                (None, None) => true,
                _ => false,
            };
            if !same {
                let key: String = t.chars().filter(|c| !c.is_ascii_digit()).collect();
                if !culprits.contains(&key) {
                    culprits.push(key);
                }
            }
        }
        if culprits.is_empty() {
            "combination".to_string()
        } else {
            culprits.join(",")
        }
    };
    match (got, want) {
        (Err(pi), _) => report.violation(&format!("C17|format|{}", pi.sig()), idx, w(), pi.describe()),
        (Ok(Ok(g)), Ok((wnt, exact))) => {
            if idx % 257 == 0 {
                report.outcome(&g);
            }
            if exact {
                if g != wnt {
                    let mut wj = w();
                    wj["expected"] = json!(wnt);
                    wj["actual"] = json!(g);
                    report.violation(&format!("C17|format|wrong-output|{dir}"), idx, wj, format!("{} formatted with {f:?}: expected {wnt:?} got {g:?}", ts.display()));
                }
            } else if strip_pad(&g).to_lowercase() != strip_pad(&wnt).to_lowercase() {
                let mut wj = w();
                wj["expected_modulo_padding_and_case"] = json!(wnt);
                wj["actual"] = json!(g);
                report.violation(&format!("C17|format|wrong-output-modulo-padding|{dir}"), idx, wj, format!("{} formatted with {f:?}: expected (modulo padding/case) {wnt:?} got {g:?}", ts.display()));
            }
        }
        (Ok(Err(_)), Err(())) => {}
        (Ok(Ok(g)), Err(())) => report.violation("C17|format|malformed-format-accepted", idx, w(), format!("format {f:?} must be an error, got {g:?}")),
        (Ok(Err(e)), Ok(_)) => report.violation(&format!("C17|format|valid-format-rejected|{dir}"), idx, w(), format!("format {f:?} rejected: {e}")),
    }
}

fn format_grid(report: &Report, thorough: bool) {
    let grid = grid(thorough);
    let dts: Vec<Option<DateTime>> = grid.iter().map(make).collect();
    let bad = dts.iter().filter(|d| d.is_none()).count();
    if bad > 0 {
        let i = dts.iter().position(|d| d.is_none()).unwrap();
        report.violation("C17|parse|default-form-rejected", i as u64, json!({"kind":"date-parse","text":grid[i].display()}), format!("{} of {} grid timestamps in the default display form are rejected by the parser", bad, grid.len()));
    }
    let basic = formats_basic();
    let total = grid.len() as u64 * basic.len() as u64;
    let name = format!("format/every directive bare x grid of {} timestamps", grid.len());
    par_range(
        report,
        &name,
        total,
        |i| {
            let (ti, fi) = ((i / basic.len() as u64) as usize, (i % basic.len() as u64) as usize);
            if let Some(dt) = &dts[ti] {
                check_format(report, i, &grid[ti], dt, &basic[fi]);
            }
        },
        |i| json!({"timestamp": grid[(i / basic.len() as u64) as usize].display(), "format": basic[(i % basic.len() as u64) as usize]}),
    );
    report.family(FamilyStat { name, cases: total, nontrivial: total, skipped: 0, note: format!("{} formats", basic.len()) });
    report.nontrivial.fetch_add(total, Ordering::Relaxed);

    let step = if thorough { grid.len() / 600 } else { grid.len() / 150 }.max(1);
    let sub: Vec<usize> = (0..grid.len()).step_by(step).collect();
    let mut flagged = formats_flagged();
    flagged.extend(formats_concat());
    let errs = formats_errors();
    flagged.extend(errs.iter().map(|s| s.to_string()));
    let total = sub.len() as u64 * flagged.len() as u64;
    let name = format!("format/flags x widths x directives, unknown directives, malformed formats, concatenations x sub-grid of {}", sub.len());
    par_range(
        report,
        &name,
        total,
        |i| {
            let (ti, fi) = (sub[(i / flagged.len() as u64) as usize], (i % flagged.len() as u64) as usize);
            if let Some(dt) = &dts[ti] {
                check_format(report, i, &grid[ti], dt, &flagged[fi]);
            }
        },
        |i| json!({"timestamp": grid[sub[(i / flagged.len() as u64) as usize]].display(), "format": flagged[(i % flagged.len() as u64) as usize]}),
    );
    report.family(FamilyStat { name, cases: total, nontrivial: total, skipped: 0, note: format!("{} formats", flagged.len()) });
    report.nontrivial.fetch_add(total, Ordering::Relaxed);
    report.sample(json!({"timestamp": grid[grid.len() / 2].display(), "format": "%_3e|%-j|%^a|%012F|%6N", "expected": ref_format(&grid[grid.len() / 2], "%_3e|%-j|%^a|%012F|%6N").ok().map(|x| x.0)}));

    // round trip and chronological comparison
    let name = "round-trip + ordering".to_string();
    let mut n = 0u64;
    for (i, ts) in grid.iter().enumerate() {
        let Some(dt) = &dts[i] else { continue };
        n += 1;
        report.eval();
        let shown = dt.to_string();
        if shown != ts.display() {
            report.violation("C17|round-trip|display-differs", i as u64, json!({"kind":"date-parse","text":ts.display(),"displayed":shown}), format!("parsed {:?}, displayed {shown:?}", ts.display()));
            continue;
        }
        match DateTime::from_str(&shown) {
            Some(back) => {
                if back != *dt || back.to_string() != shown || back.format("%s %N %::z").ok() != dt.format("%s %N %::z").ok() {
                    report.violation("C17|round-trip|instant-or-offset-changed", i as u64, json!({"kind":"date-parse","text":shown}), "from_str(to_string(x)) differs from x".into());
                }
            }
            None => report.violation("C17|round-trip|default-form-rejected", i as u64, json!({"kind":"date-parse","text":shown}), "own display form rejected".into()),
        }
    }
    let step = (grid.len() / if thorough { 1500 } else { 500 }).max(1);
    let pts: Vec<usize> = (0..grid.len()).step_by(step).filter(|i| dts[*i].is_some()).collect();
    let pairs = pts.len() as u64 * pts.len() as u64;
    par_range(
        report,
        "ordering pairs",
        pairs,
        |i| {
            let (a, b) = (pts[(i / pts.len() as u64) as usize], pts[(i % pts.len() as u64) as usize]);
            let (da, db) = (dts[a].as_ref().unwrap(), dts[b].as_ref().unwrap());
            report.eval();
            let (na, nb) = (grid[a].utc_nanos(), grid[b].utc_nanos());
            let va = liquid_core::Value::scalar(*da);
            let vb = liquid_core::Value::scalar(*db);
            let ok = (da == db) == (na == nb) && (da < db) == (na < nb) && (da > db) == (na > nb) && (va == vb) == (na == nb) && (va.partial_cmp(&vb) == Some(std::cmp::Ordering::Less)) == (na < nb);
            if !ok {
                report.violation("C17|ordering|not-chronological", i, json!({"kind":"date-compare","a":grid[a].display(),"b":grid[b].display()}), format!("{} vs {}: utc nanos {na} vs {nb}", grid[a].display(), grid[b].display()));
            }
        },
        |i| json!({"index": i}),
    );
    report.nontrivial.fetch_add(n + pairs, Ordering::Relaxed);
    report.family(FamilyStat { name, cases: n + pairs, nontrivial: n + pairs, skipped: 0, note: format!("round trips={n}, ordered pairs={pairs} (DateTime and Value comparison vs UTC nanosecond counts)") });
}


/// Pairs that are *close*: the same second with different sub-seconds, one second apart, the same
/// instant in two offsets, across midnight / month / year in one of the offsets.  Chronology must
/// hold through `DateTime`, through `Value`, and through `{% if a OP b %}` with real date-time
/// values as data.  (The grid pairs above are mostly far apart.)
fn near_pairs(report: &Report) {
    let parser = cfgs::parser(Config::Stdlib);
    let tmpl = parser.parse("{% if a == b %}={% endif %}{% if a < b %}<{% endif %}{% if a > b %}>{% endif %}{% if a <= b %}L{% endif %}{% if a >= b %}G{% endif %}{% if a != b %}N{% endif %}").expect("C17 template parses");
    let subs: [u32; 8] = [0, 1, 1_000, 5_000_000, 499_999_999, 500_000_000, 666_777_888, 999_999_999];
    let offs: [i32; 4] = [0, 5 * 3600 + 1800, -(3 * 3600 + 1800), 14 * 3600];
    let bases = [(2020, 2, 29, 23, 59, 59), (1999, 12, 31, 23, 59, 58), (2021, 1, 1, 0, 0, 0), (1970, 1, 1, 12, 0, 1), (2038, 1, 19, 3, 14, 7)];
    let mut pts: Vec<Ts> = Vec::new();
    for (y, mo, d, h, mi, sec) in bases {
        for ds in 0..2u8 {
            for ns in subs {
                for off in offs {
                    // the same UTC instant family expressed in `off`: shift the wall clock by the offset
                    let base = Ts { y, mo, d, h, mi, s: sec, ns, off: 0 };
                    let utc = base.utc_nanos() + ds as i128 * 1_000_000_000;
                    if let Some(t) = Ts::from_utc_nanos(utc, off) {
                        pts.push(t);
                    }
                }
            }
        }
    }
    let dts: Vec<Option<DateTime>> = pts.iter().map(make).collect();
    let idx: Vec<usize> = (0..pts.len()).filter(|i| dts[*i].is_some()).collect();
    let per = 2 * subs.len() * offs.len();
    let mut n = 0u64;
    for block in idx.chunks(per) {
        for &a in block {
            for &b in block {
                n += 1;
                report.eval();
                let (da, db) = (dts[a].as_ref().unwrap(), dts[b].as_ref().unwrap());
                let (na, nb) = (pts[a].utc_nanos(), pts[b].utc_nanos());
                let (va, vb) = (liquid_core::Value::scalar(*da), liquid_core::Value::scalar(*db));
                let api_ok = (da == db) == (na == nb) && (da < db) == (na < nb) && (da > db) == (na > nb) && (va == vb) == (na == nb) && (va < vb) == (na < nb) && (va > vb) == (na > nb) && (va <= vb) == (na <= nb) && (va >= vb) == (na >= nb);
                let mut g = liquid::Object::new();
                g.insert("a".into(), va.clone());
                g.insert("b".into(), vb.clone());
                let want = format!("{}{}{}{}{}{}", if na == nb { "=" } else { "" }, if na < nb { "<" } else { "" }, if na > nb { ">" } else { "" }, if na <= nb { "L" } else { "" }, if na >= nb { "G" } else { "" }, if na != nb { "N" } else { "" });
                let got = cfgs::render_guarded(&tmpl, &g);
                let tmpl_ok = matches!(&got, Ok(Ok(s)) if *s == want);
                if !api_ok || !tmpl_ok {
                    report.violation(
                        if api_ok { "C17|ordering|template-not-chronological|near" } else { "C17|ordering|not-chronological|near" },
                        n,
                        json!({"kind":"date-compare","a":pts[a].display(),"b":pts[b].display()}),
                        format!("{} vs {}: utc nanos {na} vs {nb}; template says {got:?}, expected {want:?}", pts[a].display(), pts[b].display()),
                    );
                }
            }
        }
    }
    report.nontrivial.fetch_add(n, Ordering::Relaxed);
    report.family(FamilyStat { name: "ordering of near pairs".into(), cases: n, nontrivial: n, skipped: 0, note: format!("{} timestamps: 5 base instants (incl. 23:59:59 on 29 Feb / 31 Dec, 00:00:00 on 1 Jan) x +0/+1 s x 8 sub-second values x 4 offsets; all ordered pairs within one base; DateTime, Value and template operators vs UTC nanoseconds", idx.len()) });
}

fn parse_syntaxes(report: &Report, thorough: bool) {
    let grid = grid(thorough);
    let step = (grid.len() / if thorough { 3000 } else { 600 }).max(1);
    let mut n = 0u64;
    for (i, ts) in grid.iter().enumerate().step_by(step) {
        let sign = if ts.off < 0 { '-' } else { '+' };
        let a = ts.off.abs();
        let off = format!("{sign}{:02}{:02}", a / 3600, a % 3600 / 60);
        let mon = MONTHS[ts.mo as usize - 1];
        let wd = DAYS[ts.wday() as usize];
        let hms = format!("{:02}:{:02}:{:02}", ts.h, ts.mi, ts.s);
        let forms = [
            format!("{:04}-{:02}-{:02} {hms}", ts.y, ts.mo, ts.d),
            format!("{:02} {mon} {:04} {hms}", ts.d, ts.y),
            format!("{:02} {} {:04} {hms}", ts.d, &mon[..3], ts.y),
            format!("{:02}/{:02}/{:04} {hms}", ts.mo, ts.d, ts.y),
            format!("{} {} {} {hms} {:04}", &wd[..3], &mon[..3], ts.d, ts.y),
        ];
        for (fi, f) in forms.iter().enumerate() {
            for with_off in [true, false] {
                let text = if with_off { format!("{f} {off}") } else { f.clone() };
                let want = Ts { ns: 0, off: if with_off { ts.off } else { 0 }, ..*ts };
                n += 1;
                report.eval();
                let got = guard(|| DateTime::from_str(&text));
                match got {
                    Err(pi) => report.violation(&format!("C17|parse|{}", pi.sig()), i as u64, json!({"kind":"date-parse","text":text}), pi.describe()),
                    Ok(None) => report.violation(&format!("C17|parse|accepted-syntax-rejected|form{fi}"), i as u64, json!({"kind":"date-parse","text":text}), format!("{text:?} is one of the accepted syntaxes but was rejected")),
                    Ok(Some(dt)) => {
                        if dt.to_string() != want.display() {
                            report.violation(&format!("C17|parse|wrong-instant-or-offset|form{fi}"), i as u64, json!({"kind":"date-parse","text":text,"expected":want.display(),"actual":dt.to_string()}), format!("{text:?} parsed to {dt}, expected {}", want.display()));
                        }
                    }
                }
            }
        }
        // sub-second form
        if ts.ns != 0 {
            let text = ts.display();
            n += 1;
            report.eval();
            match DateTime::from_str(&text) {
                Some(dt) if dt.to_string() == text => {}
                other => report.violation("C17|parse|subsecond-form", i as u64, json!({"kind":"date-parse","text":text}), format!("got {other:?}")),
            }
        }
    }
    // unix timestamps
    for s in [0i64, 1, -1, 86_399, 951_868_799, 2_147_483_647, 2_147_483_648, 253_402_300_799] {
        n += 1;
        report.eval();
        match guard(|| DateTime::from_str(&s.to_string())) {
            Ok(Some(dt)) => {
                if dt.format("%s").ok() != Some(s.to_string()) {
                    report.violation("C17|parse|unix-timestamp", s as u64, json!({"kind":"date-parse","text":s.to_string()}), format!("parsed to {dt}"));
                }
            }
            Ok(None) => report.violation("C17|parse|unix-timestamp-rejected", s as u64, json!({"kind":"date-parse","text":s.to_string()}), "rejected".into()),
            Err(pi) => report.violation(&format!("C17|parse|{}", pi.sig()), s as u64, json!({"kind":"date-parse","text":s.to_string()}), pi.describe()),
        }
    }
    // garbage never crashes
    for g in ["", " ", "2020", "2020-13-01 00:00:00", "2020-02-30 00:00:00 +0000", "31 Foo 2020 00:00:00", "00/00/0000 00:00:00", "é", "2020-02-29 24:00:00", "2020-02-29 23:59:60 +0000", "99999999999999999999", "-99999999999999999999", "+0000", "2020-02-29 23:59:59 +2400", "2020-02-29 23:59:59 +1960"] {
        n += 1;
        report.eval();
        if let Err(pi) = guard(|| DateTime::from_str(g)) {
            report.violation(&format!("C17|parse|{}", pi.sig()), 0, json!({"kind":"date-parse","text":g}), pi.describe());
        }
    }
    report.nontrivial.fetch_add(n, Ordering::Relaxed);
    report.family(FamilyStat { name: "parser/accepted syntaxes x with-without offset".into(), cases: n, nontrivial: n, skipped: 0, note: "ISO-like, sub-second, long month, short month, US slashes, ctime-like; unix timestamps; malformed inputs".into() });
}

fn filter_binding(report: &Report) {
    let parser = cfgs::parser(Config::Full);
    let grid = grid(false);
    let step = (grid.len() / 120).max(1);
    let fmts = ["%Y-%m-%d %H:%M:%S %z", "%j|%U|%W|%V|%G", "%a %b %e %l %p", "%L.%N", "%c", "%q%é", "%"];
    let mut n = 0u64;
    for (i, ts) in grid.iter().enumerate().step_by(step) {
        // a grid timestamp the parser rejects cannot be passed as a date-time value; format_grid
        // has already reported it (C17|parse|default-form-rejected); the string form is still run
        let parses = DateTime::from_str(&ts.display()).is_some();
        for f in fmts {
            for as_string in [false, true] {
                if !as_string && !parses {
                    continue;
                }
                let data = V::obj(&[("ts", if as_string { V::s(&ts.display()) } else { V::DateTime(ts.display()) }), ("f", V::s(f))]);
                n += 1;
                report.eval();
                let (actual, _) = cfgs::run_case(&parser, "{{ ts | date: f }}", &data.to_object());
                let want = ref_format(ts, f);
                let ok = match (&actual, &want) {
                    (Outcome::Ok(g), Ok((w, _))) => g == w,
                    (Outcome::RenderErr(_), Err(())) => true,
                    // a malformed format may also echo the input unformatted
                    (Outcome::Ok(_), Err(())) => true,
                    _ => false,
                };
                if !ok {
                    report.violation(
                        &format!("C17|date-filter|{}", if matches!(actual, Outcome::Panic(_)) { "panic" } else { "wrong-output" }),
                        i as u64,
                        json!({"kind":"render","template":"{{ ts | date: f }}","data":data.to_json(),"partials":[],"expected":format!("{want:?}"),"actual":actual.to_json()}),
                        format!("{} | date: {f:?}: expected {want:?} got {}", ts.display(), actual.short()),
                    );
                }
                // date_in_tz: same instant shifted to whole-hour zones
                if f.starts_with("%Y") && parses {
                    for tz in [-11i64, 0, 9] {
                        let data = V::obj(&[("ts", V::DateTime(ts.display())), ("f", V::s("%s")), ("tz", V::Int(tz))]);
                        n += 1;
                        report.eval();
                        let (actual, _) = cfgs::run_case(&parser, "{{ ts | date_in_tz: f, tz }}", &data.to_object());
                        if actual != Outcome::Ok(ts.unix().to_string()) {
                            report.violation("C17|date_in_tz|instant-changed", i as u64, json!({"kind":"render","template":"{{ ts | date_in_tz: f, tz }}","data":data.to_json(),"partials":[],"actual":actual.to_json()}), format!("expected {} got {}", ts.unix(), actual.short()));
                        }
                    }
                }
            }
        }
    }
    report.nontrivial.fetch_add(n, Ordering::Relaxed);
    report.family(FamilyStat { name: "date / date_in_tz filter binding".into(), cases: n, nontrivial: n, skipped: 0, note: "timestamps passed as date-time values and as strings".into() });
}

pub fn run(tier: Tier) -> i32 {
    let report = Report::new("C17", tier, "exploration");
    match self_test() {
        Ok(n) => report.extra("reference_self_test_rows", json!(n)),
        Err(e) => {
            eprintln!("[C17] harness self-test failed: {e}");
            return 2;
        }
    }
    report.set_rule("grid of timestamps (years 1970..2040 + 1, 1000, 1900, 2100, 9999; 1-7 Jan, 25-31 Dec, 28/29 Feb, 1 Mar; hours 0/11/12/23 and all 24 on a sub-grid; sub-seconds 0, 5 ms, 1 us, 1 ns, 0.5 s, ...; nine offsets incl. :30/:45) x every directive bare; sub-grid x every directive x 9 flag combinations x 5 widths, unknown/non-ASCII directives, malformed formats, all concatenations of <= 3 from a 14-item set; all accepted parser syntaxes with and without offset; round trips; all ordered pairs of a sub-grid; compared with an independent calendar that must first reproduce the module's own expectation tables; distinct by construction; non-trivial = compared with the reference");
    report.assume("`#` and flags/width on %z %Z %:z %::z are compared modulo padding and case; negative years are outside the grid; %Z prints the numeric offset with a colon (the crate's documented deviation); now/today excluded");
    let t = tier.thorough();
    format_grid(&report, t);
    near_pairs(&report);
    parse_syntaxes(&report, t);
    filter_binding(&report);
    report.finish()
}
