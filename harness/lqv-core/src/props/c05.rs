//! C05 — loops visit exactly the selected elements with truthful metadata.

use crate::ast::*;
use crate::cfgs::{self, Config, Outcome, Policy};
use crate::cmp;
use crate::refl::{self, Partial};
use crate::report::{FamilyStat, Report, Tier};
use crate::run::{decode, par_range, product};
use crate::val::V;
use serde_json::json;
use std::collections::BTreeMap;
use std::sync::atomic::{AtomicU64, Ordering};

fn fl(field: &str) -> Stmt {
    Stmt::Out(Expr::path("forloop", &[field]))
}

fn for_body(var: &str) -> Vec<Stmt> {
    let mut b = vec![text("["), Stmt::Out(Expr::var(var))];
    for f in ["index", "index0", "rindex", "rindex0", "first", "last", "length"] {
        b.push(text("|"));
        b.push(fl(f));
    }
    b.push(text("]"));
    b
}

fn tr_body(var: &str) -> Vec<Stmt> {
    let mut b = vec![text("["), Stmt::Out(Expr::var(var))];
    for f in ["index", "index0", "rindex", "rindex0", "first", "last", "length", "col", "col0", "col_first", "col_last"] {
        b.push(text("|"));
        b.push(Stmt::Out(Expr::path("tablerow", &[f])));
    }
    b.push(text("]"));
    b
}

/// (source, extra data bindings)
fn sources(len: usize) -> Vec<(Src, &'static str)> {
    let mut v = vec![
        (Src::Expr(Expr::var("arr")), "data-array"),
        (Src::Range(Expr::int(1), Expr::int(len as i64)), "literal-range"),
        (Src::Range(Expr::var("lo"), Expr::var("hi")), "variable-range"),
        (Src::Range(Expr::s("1"), Expr::var("his")), "numeric-string-range"),
    ];
    if len == 0 {
        v.push((Src::Expr(Expr::var("nothing")), "nil"));
        v.push((Src::Range(Expr::int(5), Expr::int(2)), "descending-range"));
        v.push((Src::Expr(Expr::Lit(V::Nil)), "nil-literal"));
    }
    if len == 1 {
        v.push((Src::Expr(Expr::var("obj")), "single-key-object"));
    }
    v
}

fn data_for(len: usize, off: i64, lim: i64, cols: i64) -> V {
    V::obj(&[
        ("arr", V::Arr((0..len).map(|i| V::Str(format!("e{i}"))).collect())),
        ("lo", V::Int(1)),
        ("hi", V::Int(len as i64)),
        ("his", V::Str(len.to_string())),
        ("nothing", V::Nil),
        ("obj", V::obj(&[("k", V::s("v"))])),
        ("off", V::Int(off)),
        ("lim", V::Int(lim)),
        ("cols", V::Int(cols)),
    ])
}

/// Strips the tablerow wrappers; returns (body text, [(row, col)] per cell, rows opened, rows closed)
pub fn strip_tablerow(s: &str) -> (String, Vec<(i64, i64)>, usize, usize, bool) {
    let mut out = String::new();
    let mut cells = Vec::new();
    let mut cur_row = -1i64;
    let (mut opened, mut closed) = (0, 0);
    let mut well_formed = true;
    let mut rest = s;
    loop {
        let Some(p) = rest.find('<') else {
            out.push_str(rest);
            break;
        };
        out.push_str(&rest[..p]);
        rest = &rest[p..];
        if let Some(r) = rest.strip_prefix("<tr class=\"row") {
            if let Some(q) = r.find("\">") {
                cur_row = r[..q].parse().unwrap_or(-1);
                opened += 1;
                rest = &r[q + 2..];
                continue;
            }
        }
        if let Some(r) = rest.strip_prefix("<td class=\"col") {
            if let Some(q) = r.find("\">") {
                let c = r[..q].parse().unwrap_or(-1);
                cells.push((cur_row, c));
                rest = &r[q + 2..];
                continue;
            }
        }
        if let Some(r) = rest.strip_prefix("</td>") {
            rest = r;
            continue;
        }
        if let Some(r) = rest.strip_prefix("</tr>") {
            closed += 1;
            rest = r;
            continue;
        }
        well_formed = false;
        out.push('<');
        rest = &rest[1..];
    }
    (out.replace('\n', ""), cells, opened, closed, well_formed)
}

fn single_loops(report: &Report, max_len: usize) {
    let parser = cfgs::parser(Config::Stdlib);
    let empty = BTreeMap::<String, Partial>::new();
    // radices: len, off(0=absent,1..=9 -> 0..8), lim(same), rev, form(0=for,1..=5 tablerow cols absent/1..4), argmode(0 literal,1 variable), source idx (max 7)
    let rad = [max_len as u64 + 1, 10, 10, 2, 6, 2, 7];
    let total = product(&rad);
    let name = format!("single-loop/len<={max_len}");
    let nontriv = AtomicU64::new(0);
    let cases = AtomicU64::new(0);
    let skipped0 = report.skipped.load(Ordering::Relaxed);
    let build = |i: u64| -> Option<(Vec<Stmt>, V, bool)> {
        let d = decode(i, &rad);
        let (len, off, lim, rev, form, argmode, si) = (d[0] as usize, d[1], d[2], d[3] == 1, d[4], d[5] == 1, d[6] as usize);
        let srcs = sources(len);
        if si >= srcs.len() {
            return None;
        }
        if form > 0 && rev {
            return None; // tablerow has no reversed
        }
        if argmode && off == 0 && lim == 0 && form <= 1 {
            return None; // nothing to pass through a variable
        }
        let mk = |x: u64, var: &str| -> Option<Expr> {
            if x == 0 {
                None
            } else if argmode {
                Some(Expr::var(var))
            } else {
                Some(Expr::int(x as i64 - 1))
            }
        };
        let data = data_for(len, off as i64 - 1, lim as i64 - 1, form as i64 - 1);
        let src = srcs[si].0.clone();
        let prog = if form == 0 {
            vec![Stmt::For {
                var: "i".into(),
                src,
                limit: mk(lim, "lim"),
                offset: mk(off, "off"),
                reversed: rev,
                body: for_body("i"),
                else_: Some(vec![text("E")]),
            }]
        } else {
            vec![Stmt::TableRow {
                var: "i".into(),
                src,
                cols: if form == 1 { None } else if argmode { Some(Expr::var("cols")) } else { Some(Expr::int(form as i64 - 1)) },
                limit: mk(lim, "lim"),
                offset: mk(off, "off"),
                body: tr_body("i"),
            }]
        };
        Some((prog, data, form > 0))
    };
    par_range(
        report,
        &name,
        total,
        |i| {
            let Some((prog, data, is_tr)) = build(i) else { return };
            cases.fetch_add(1, Ordering::Relaxed);
            report.eval();
            let textp = print(&prog);
            let expected = refl::run_with(&prog, &data, &empty);
            let (actual, _) = cfgs::run_case(&parser, &textp, &data.to_object());
            let class = if is_tr { "tablerow" } else { "for" };
            let w = || cmp::witness(&textp, &data, &[]);
            if is_tr {
                // compare modulo the wrapper markup, then check the wrappers' truthfulness
                match (&expected, &actual) {
                    (Ok(exp), Outcome::Ok(act)) => {
                        let (eb, ecells, _, _, _) = strip_tablerow(exp);
                        let (ab, acells, opened, closed, wf) = strip_tablerow(act);
                        if eb != ab {
                            let mut wj = w();
                            wj["expected"] = json!(exp);
                            wj["actual"] = json!(act);
                            report.violation("C05|tablerow|output-differs", i, wj, format!("cell bodies differ: expected {eb:?} got {ab:?}"));
                        } else if ecells != acells || opened != closed || !wf {
                            let mut wj = w();
                            wj["expected"] = json!(exp);
                            wj["actual"] = json!(act);
                            report.violation("C05|tablerow|wrapper-untruthful", i, wj, format!("row/col classes {acells:?} expected {ecells:?}; rows opened {opened} closed {closed}"));
                        }
                        if !eb.is_empty() {
                            nontriv.fetch_add(1, Ordering::Relaxed);
                        }
                        report.outcome(act);
                    }
                    _ => {
                        cmp::check(report, "C05", class, i, w, &expected, &actual);
                    }
                }
            } else if cmp::check(report, "C05", class, i, w, &expected, &actual) {
                if let Ok(s) = &expected {
                    if s != "E" {
                        nontriv.fetch_add(1, Ordering::Relaxed);
                    }
                    report.outcome(s);
                }
            }
        },
        |i| match build(i) {
            Some((p, d, _)) => cmp::witness(&print(&p), &d, &[]),
            None => json!(null),
        },
    );
    if let Some((p, d, _)) = build(total / 2 + 12345) {
        report.sample(json!({"family": name, "template": print(&p), "data": d.to_json(), "expected": format!("{:?}", refl::run_with(&p, &d, &empty))}));
    }
    report.nontrivial.fetch_add(nontriv.load(Ordering::Relaxed), Ordering::Relaxed);
    report.family(FamilyStat {
        name,
        cases: cases.load(Ordering::Relaxed),
        nontrivial: nontriv.load(Ordering::Relaxed),
        skipped: report.skipped.load(Ordering::Relaxed) - skipped0,
        note: "len x offset{absent,0..8} x limit{absent,0..8} x reversed x {for, tablerow cols absent/1..4} x literal/variable arguments x source kinds".into(),
    });
}

/// interrupt placed at a guarded position
fn guard_int(level_loop: &str, k: i64, brk: bool, wrap: usize) -> Vec<Stmt> {
    let _ = level_loop;
    let int = if brk { Stmt::Break } else { Stmt::Continue };
    let inner = match wrap {
        0 => vec![int],
        1 => vec![Stmt::Capture("cap".into(), vec![text("c"), int, text("d")])],
        2 => vec![Stmt::Include { name: Expr::s(if brk { "brk" } else { "cont" }), args: vec![] }],
        _ => vec![if_(Cond::Truthy(Expr::Lit(V::Bool(true))), vec![text("t"), int, text("u")], None)],
    };
    vec![if_(Cond::Bin(Expr::path("forloop", &["index0"]), Op::Eq, Expr::int(k)), inner, None)]
}

fn nested_loops(report: &Report, max_len: usize, three: bool) {
    let partials_src = vec![
        ("brk".to_string(), "b{% break %}x".to_string()),
        ("cont".to_string(), "c{% continue %}x".to_string()),
    ];
    let mut pmap = BTreeMap::new();
    pmap.insert("brk".to_string(), Partial::Ok(vec![text("b"), Stmt::Break, text("x")]));
    pmap.insert("cont".to_string(), Partial::Ok(vec![text("c"), Stmt::Continue, text("x")]));
    let parser = cfgs::build(Config::Stdlib, Policy::Eager, &partials_src).expect("parser");
    // radices: outer len, inner len, position(0 none, 1 outer-before-inner, 2 outer-after-inner, 3 inner-start, 4 inner-end), k, break?, wrap, [third level len]
    let l = max_len as u64 + 1;
    let rad = [l, l, 5, l, 2, 4, if three { l } else { 1 }];
    let total = product(&rad);
    let name = format!("nested-loops/len<={max_len}{}", if three { "/3-levels" } else { "" });
    let nontriv = AtomicU64::new(0);
    let skipped0 = report.skipped.load(Ordering::Relaxed);
    let build = |i: u64| -> (Vec<Stmt>, V) {
        let d = decode(i, &rad);
        let (lo, li, pos, k, brk, wrap, l3) = (d[0] as i64, d[1] as i64, d[2], d[3] as i64, d[4] == 1, d[5] as usize, d[6] as i64);
        let g = |p: u64| -> Vec<Stmt> {
            if pos == p {
                guard_int("", k, brk, wrap)
            } else {
                vec![]
            }
        };
        let mut inner_body = vec![];
        inner_body.extend(g(3));
        inner_body.push(text("("));
        inner_body.push(Stmt::Out(Expr::var("o")));
        inner_body.push(Stmt::Out(Expr::var("n")));
        inner_body.push(text(":"));
        inner_body.push(fl("index"));
        inner_body.push(text("/"));
        inner_body.push(fl("length"));
        inner_body.push(text("^"));
        inner_body.push(Stmt::Out(Expr::path("forloop", &["parentloop", "index"])));
        inner_body.push(text("/"));
        inner_body.push(Stmt::Out(Expr::path("forloop", &["parentloop", "rindex0"])));
        if three {
            inner_body.push(Stmt::For {
                var: "m".into(),
                src: Src::Range(Expr::int(1), Expr::int(l3)),
                limit: None,
                offset: None,
                reversed: false,
                body: vec![
                    text("#"),
                    Stmt::Out(Expr::var("m")),
                    Stmt::Out(Expr::path("forloop", &["parentloop", "parentloop", "index"])),
                    if_(Cond::Bin(Expr::var("m"), Op::Eq, Expr::int(2)), vec![Stmt::Break], None),
                    text("$"),
                ],
                else_: Some(vec![text("e3")]),
            });
        }
        inner_body.push(text(")"));
        inner_body.extend(g(4));
        inner_body.push(text(";"));
        let mut outer_body = vec![text("<")];
        outer_body.push(fl("index"));
        outer_body.extend(g(1));
        outer_body.push(Stmt::For {
            var: "n".into(),
            src: Src::Range(Expr::int(1), Expr::int(li)),
            limit: None,
            offset: None,
            reversed: false,
            body: inner_body,
            else_: Some(vec![text("e")]),
        });
        outer_body.extend(g(2));
        outer_body.push(fl("rindex"));
        outer_body.push(text(">"));
        let prog = vec![
            Stmt::For {
                var: "o".into(),
                src: Src::Expr(Expr::var("arr")),
                limit: None,
                offset: None,
                reversed: false,
                body: outer_body,
                else_: Some(vec![text("E")]),
            },
            text("|after"),
        ];
        let data = V::obj(&[("arr", V::Arr((0..lo).map(|i| V::Str(format!("{}", (b'a' + i as u8) as char))).collect()))]);
        (prog, data)
    };
    par_range(
        report,
        &name,
        total,
        |i| {
            let (prog, data) = build(i);
            report.eval();
            let textp = print(&prog);
            let expected = refl::run_with(&prog, &data, &pmap);
            let (actual, _) = cfgs::run_case(&parser, &textp, &data.to_object());
            if cmp::check(report, "C05", "nested", i, || cmp::witness(&textp, &data, &partials_src), &expected, &actual) {
                if let Ok(s) = &expected {
                    if s.contains('(') {
                        nontriv.fetch_add(1, Ordering::Relaxed);
                    }
                    report.outcome(s);
                }
            }
        },
        |i| {
            let (p, d) = build(i);
            cmp::witness(&print(&p), &d, &partials_src)
        },
    );
    let (p, d) = build(total - 3);
    report.sample(json!({"family": name, "template": print(&p), "data": d.to_json(), "expected": format!("{:?}", refl::run_with(&p, &d, &pmap))}));
    report.nontrivial.fetch_add(nontriv.load(Ordering::Relaxed), Ordering::Relaxed);
    report.family(FamilyStat {
        name,
        cases: total,
        nontrivial: nontriv.load(Ordering::Relaxed),
        skipped: report.skipped.load(Ordering::Relaxed) - skipped0,
        note: "break/continue at every (level, position, index), bare / inside capture / inside include / inside if; parentloop printed".into(),
    });
}


/// Objects as loop sources: every key/value pair is visited exactly once (order is unspecified
/// for more than one key, so visited pairs are compared as a set), whatever the values are
/// (nil, false, empty, nested), and `forloop`/`tablerow` metadata describes the window.
fn object_sources(report: &Report) {
    let parser = cfgs::parser(Config::Stdlib);
    let vals: Vec<(&str, V)> = vec![
        ("nil", V::Nil),
        ("false", V::Bool(false)),
        ("true", V::Bool(true)),
        ("0", V::Int(0)),
        ("empty-str", V::s("")),
        ("v", V::s("v")),
        ("empty-arr", V::Arr(vec![])),
        ("empty-obj", V::Obj(vec![])),
        ("arr", V::Arr(vec![V::Int(1), V::Int(2)])),
    ];
    // objects: every single-key object, every two-key object over the value list, and 3/4-key mixes
    let mut objs: Vec<Vec<(String, V)>> = Vec::new();
    for (_, v) in &vals {
        objs.push(vec![("k".into(), v.clone())]);
    }
    for (_, a) in &vals {
        for (_, b) in &vals {
            objs.push(vec![("ka".into(), a.clone()), ("kb".into(), b.clone())]);
        }
    }
    for i in 0..vals.len() {
        let pick = |j: usize| vals[(i + j * 2) % vals.len()].1.clone();
        objs.push(vec![("a".into(), pick(0)), ("b".into(), pick(1)), ("c".into(), pick(2))]);
        objs.push(vec![("size".into(), pick(0)), ("first".into(), pick(1)), ("é".into(), pick(2)), ("0".into(), pick(3))]);
    }
    // how the engine itself prints each value (`{{ v }}`): the printed form of arrays/objects is not
    // this property's business, so it is taken from the implementation, not modelled
    let printed: Vec<(V, String)> = vals
        .iter()
        .map(|(_, v)| {
            let (o, _) = cfgs::run_case(&parser, "{{ v }}", &V::obj(&[("v", v.clone())]).to_object());
            (v.clone(), if let Outcome::Ok(s) = o { s } else { "<unprintable>".to_string() })
        })
        .collect();
    let rendered = |v: &V| -> String { printed.iter().find(|(x, _)| x == v).map(|(_, s)| s.clone()).unwrap_or_default() };
    // window parameters: (offset, limit), None = absent
    let windows: Vec<(Option<usize>, Option<usize>)> = vec![(None, None), (Some(0), None), (Some(1), None), (None, Some(0)), (None, Some(1)), (None, Some(2)), (Some(1), Some(1)), (Some(1), Some(5)), (Some(9), None)];
    let total = (objs.len() * windows.len() * 2) as u64;
    let name = "object sources: single/multi-key objects x value kinds x windows x for|tablerow".to_string();
    let nontriv = AtomicU64::new(0);
    par_range(
        report,
        &name,
        total,
        |i| {
            let d = decode(i, &[objs.len() as u64, windows.len() as u64, 2]);
            let (o, (off, lim), tr) = (&objs[d[0] as usize], windows[d[1] as usize], d[2] == 1);
            let n = o.len();
            let lo = off.unwrap_or(0).min(n);
            let hi = lim.map(|l| (lo + l).min(n)).unwrap_or(n);
            let want = hi - lo;
            let mut args = String::new();
            if let Some(l) = lim {
                args.push_str(&format!(" limit:{l}"));
            }
            if let Some(f) = off {
                args.push_str(&format!(" offset:{f}"));
            }
            let text = if tr {
                format!("{{% tablerow p in obj{args} %}}\u{1}{{{{ p[0] }}}}\u{2}{{{{ p[1] }}}}\u{2}{{{{ tablerow.index }}}}\u{2}{{{{ tablerow.length }}}}\u{2}{{{{ p.size }}}}{{% endtablerow %}}")
            } else {
                format!("{{% for p in obj{args} %}}\u{1}{{{{ p[0] }}}}\u{2}{{{{ p[1] }}}}\u{2}{{{{ forloop.index }}}}\u{2}{{{{ forloop.length }}}}\u{2}{{{{ p.size }}}}{{% else %}}ELSE{{% endfor %}}")
            };
            let data = V::obj(&[("obj", V::Obj(o.clone()))]);
            report.eval();
            let (actual, _) = cfgs::run_case(&parser, &text, &data.to_object());
            let w = || cmp::witness(&text, &data, &[]);
            let Outcome::Ok(out) = &actual else {
                report.violation("C05|object-source|not-rendered", i, w(), format!("{text}: {}", actual.short()));
                return;
            };
            let body = if tr { strip_tablerow(out).0 } else { out.clone() };
            if want == 0 {
                let expect = if tr { "" } else { "ELSE" };
                if body != expect {
                    report.violation("C05|object-source|empty-window", i, w(), format!("{text}: nothing is selected, expected {expect:?} got {body:?}"));
                }
                return;
            }
            nontriv.fetch_add(1, Ordering::Relaxed);
            let cells: Vec<Vec<&str>> = body.split('\u{1}').skip(1).map(|c| c.split('\u{2}').collect()).collect();
            let mut problems = Vec::new();
            if cells.len() != want {
                problems.push(format!("{} iterations, expected {want}", cells.len()));
            }
            let mut seen = std::collections::BTreeSet::new();
            for (j, c) in cells.iter().enumerate() {
                if c.len() != 5 {
                    problems.push(format!("cell {j} malformed: {c:?}"));
                    continue;
                }
                match o.iter().find(|(k, _)| k == c[0]) {
                    None => problems.push(format!("visited key {:?} is not a key of the object", c[0])),
                    Some((_, v)) => {
                        if rendered(v) != c[1] {
                            problems.push(format!("pair {:?} printed value {:?}, expected {:?}", c[0], c[1], rendered(v)));
                        }
                    }
                }
                if !seen.insert(c[0].to_string()) {
                    problems.push(format!("key {:?} visited twice", c[0]));
                }
                if c[2] != (j + 1).to_string() || c[3] != want.to_string() {
                    problems.push(format!("iteration {j}: index/length printed {}/{}, expected {}/{want}", c[2], c[3], j + 1));
                }
                if c[4] != "2" {
                    problems.push(format!("pair size printed {:?}, expected 2", c[4]));
                }
            }
            // a window over the whole object must visit every key
            if want == n && seen.len() != n {
                problems.push("not every key was visited".into());
            }
            if !problems.is_empty() {
                report.violation("C05|object-source|wrong-visit", i, w(), format!("{text} on {}: {}", data.to_json(), problems.join("; ")));
            } else if i % 7 == 0 {
                report.outcome(&(seen.len(), want, tr));
            }
        },
        |i| json!({"index": i}),
    );
    report.nontrivial.fetch_add(nontriv.load(Ordering::Relaxed), Ordering::Relaxed);
    report.family(FamilyStat { name, cases: total, nontrivial: nontriv.load(Ordering::Relaxed), skipped: 0, note: format!("{} objects (values nil/false/true/0/''/'v'/[]/{{}}/[1,2]; keys incl. size/first/é/0), {} windows; visited pairs compared as a set (iteration order of multi-key objects is unspecified)", objs.len(), windows.len()) });
}

pub fn run(tier: Tier) -> i32 {
    let report = Report::new("C05", tier, "exploration");
    report.set_rule("complete product of collection length x offset x limit x reversed x loop form x argument mode x source kind, and of nested-loop lengths x interrupt kind x level/position x guard index x wrapping construct; each case distinct by construction; non-trivial = at least one iteration is predicted");
    report.assume("reference window = elems[min(offset,len) .. min(offset+limit,len)], then reversed; tablerow output compared modulo the <tr>/<td> wrapper markup, whose row/col classes are checked separately");
    single_loops(&report, 6);
    nested_loops(&report, 3, false);
    object_sources(&report);
    if tier.thorough() {
        single_loops(&report, 8);
        nested_loops(&report, 4, true);
    }
    report.finish()
}
