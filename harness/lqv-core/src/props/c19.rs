//! C19 — eager, lazy and on-demand partial compilation are observationally equivalent.

use crate::cfgs::{self, first_line, Config, Outcome, Policy};
use crate::props::c08;
use crate::refl::{self, Partial};
use crate::report::{FamilyStat, Report, Tier};
use crate::run::{guard, par_range, seq_count, seq_decode};
use liquid_core::partials::{EagerCompiler, InMemorySource, LazyCompiler, OnDemandCompiler, PartialCompiler};
use liquid_core::runtime::{PartialStore, RuntimeBuilder};
use liquid_core::Renderable;
use serde_json::json;
use std::sync::atomic::{AtomicU64, Ordering};
use std::sync::Arc;

const POLICIES: [Policy; 3] = [Policy::Eager, Policy::Lazy, Policy::OnDemand];

/// "fail alike" = all fail; the wording of the message is not compared across
/// policies (each store formats its own), only recorded
fn norm(o: &Outcome) -> String {
    match o {
        Outcome::Ok(s) => format!("ok:{s}"),
        Outcome::RenderErr(_) => "err".to_string(),
        Outcome::ParseErr(e) => format!("parse-err:{}", first_line(e)),
        Outcome::Panic(m) => format!("panic:{m}"),
        Outcome::Corrupt(m) => format!("corrupt:{m}"),
    }
}

fn render_once(t: &liquid::Template, g: &liquid::Object) -> Outcome {
    match cfgs::render_guarded(t, g) {
        Ok(Ok(s)) => Outcome::Ok(s),
        Ok(Err(e)) => Outcome::RenderErr(e),
        Err(pi) => Outcome::Panic(pi.describe()),
    }
}

fn scenarios(report: &Report, max_n: usize) {
    let g = c08::grammar(max_n);
    let total = g.count_upto(max_n);
    let (src, pmap) = c08::library_sources();
    // the same library with the broken partial replaced by a harmless valid one,
    // and with it removed altogether
    let src_fixed: Vec<(String, String)> = src.iter().map(|(n, t)| if n == "broken" { (n.clone(), "FIXED".to_string()) } else { (n.clone(), t.clone()) }).collect();
    let src_without: Vec<(String, String)> = src.iter().filter(|(n, _)| n != "broken").cloned().collect();
    let datas = c08::datas();
    let globals: Vec<liquid::Object> = datas.iter().map(|d| d.to_object()).collect();
    let mut parsers = Vec::new();
    for p in POLICIES {
        match guard(|| cfgs::build(Config::Stdlib, p, &src)) {
            Ok(Ok(parser)) => parsers.push(parser),
            Ok(Err(e)) => {
                report.evals(1);
                report.violation("C19|build-fails-because-of-a-broken-partial", 0, json!({"kind":"store","policy":format!("{p:?}"),"partials":src}), format!("ParserBuilder::build failed: {e}"));
                return;
            }
            Err(pi) => {
                report.evals(1);
                report.violation(&format!("C19|build|{}", pi.sig()), 0, json!({"kind":"store","policy":format!("{p:?}"),"partials":src}), pi.describe());
                return;
            }
        }
    }
    let parsers_fixed: Vec<liquid::Parser> = POLICIES.iter().map(|p| cfgs::build(Config::Stdlib, *p, &src_fixed).expect("parser")).collect();
    let parsers_without: Vec<liquid::Parser> = POLICIES.iter().map(|p| cfgs::build(Config::Stdlib, *p, &src_without).expect("parser")).collect();
    let name = format!("scenarios/N<={max_n} x 3 policies x 3 renders");
    let nontriv = AtomicU64::new(0);
    let unaffected = AtomicU64::new(0);
    let compared = AtomicU64::new(0);
    par_range(
        report,
        &name,
        total,
        |i| {
            let (inst, textp) = c08::build_program(&g, i, max_n);
            let w = |d: usize| json!({"kind":"policies","template":textp,"data":datas[d].to_json(),"partials":src});
            let mut per_policy: Vec<Vec<String>> = Vec::new();
            for (pi, parser) in parsers.iter().enumerate() {
                let t = match cfgs::parse_guarded(parser, &textp) {
                    Ok(Ok(t)) => t,
                    other => {
                        report.violation("C19|main-template-rejected", i, w(0), format!("{:?} under {:?}", other.map(|r| r.map(|_| ())), POLICIES[pi]));
                        return;
                    }
                };
                let mut obs = Vec::new();
                // d0, d1, d0: the third use must equal the first
                for d in [0usize, 1, 0] {
                    report.eval();
                    obs.push(norm(&render_once(&t, &globals[d])));
                }
                if obs[0] != obs[2] {
                    report.violation("C19|repeated-use-differs-from-first-use", i, w(0), format!("{:?}: first {} third {}", POLICIES[pi], obs[0], obs[2]));
                }
                if obs.iter().any(|o| o.starts_with("panic:")) {
                    report.violation(&format!("C19|panic|{}", crate::report::norm_msg(&obs.concat())), i, w(0), obs.concat());
                }
                per_policy.push(obs);
            }
            compared.fetch_add(1, Ordering::Relaxed);
            if per_policy[0] != per_policy[1] || per_policy[0] != per_policy[2] {
                let which = if per_policy[0] != per_policy[1] { "eager-vs-lazy" } else { "eager-vs-ondemand" };
                let mut wj = w(0);
                wj["eager"] = json!(per_policy[0]);
                wj["lazy"] = json!(per_policy[1]);
                wj["ondemand"] = json!(per_policy[2]);
                report.violation(&format!("C19|policies-disagree|{which}"), i, wj, format!("eager={:?} lazy={:?} ondemand={:?}", per_policy[0], per_policy[1], per_policy[2]));
            }
            if per_policy[0][0].starts_with("ok:(") || per_policy[0][0].contains('(') {
                nontriv.fetch_add(1, Ordering::Relaxed);
            }
            if i % 11 == 0 {
                report.outcome(&per_policy[0]);
            }
            // renders that do not reach the broken partial are unaffected by it
            for d in 0..2usize {
                if refl::run_with(&inst, &datas[d], &pmap).is_ok() {
                    unaffected.fetch_add(1, Ordering::Relaxed);
                    for (pi, _) in POLICIES.iter().enumerate() {
                        for (label, alt) in [("replaced-by-valid", &parsers_fixed[pi]), ("removed", &parsers_without[pi])] {
                            report.eval();
                            let alt_out = match cfgs::parse_guarded(alt, &textp) {
                                Ok(Ok(t)) => norm(&render_once(&t, &globals[d])),
                                _ => "parse-failed".to_string(),
                            };
                            if alt_out != per_policy[pi][d] {
                                let mut wj = w(d);
                                wj["with_broken_partial"] = json!(per_policy[pi][d]);
                                wj["alternative"] = json!(alt_out);
                                report.violation(&format!("C19|unreached-bad-partial-affects-render|{label}"), i, wj, format!("{:?}: with broken partial present {} ; {label} {}", POLICIES[pi], per_policy[pi][d], alt_out));
                            }
                        }
                    }
                }
            }
        },
        |i| json!({"kind":"policies","template":c08::build_program(&g, i, max_n).1,"partials":src}),
    );
    report.sample(json!({"family": name, "template": c08::build_program(&g, total - 77, max_n).1, "policies": ["Eager","Lazy","OnDemand"], "renders": "d0,d1,d0"}));
    report.states.fetch_add(total, Ordering::Relaxed);
    report.transitions.fetch_add(total * 9, Ordering::Relaxed);
    report.traces.fetch_add(compared.load(Ordering::Relaxed), Ordering::Relaxed);
    report.nontrivial.fetch_add(nontriv.load(Ordering::Relaxed), Ordering::Relaxed);
    report.family(FamilyStat { name, cases: total, nontrivial: nontriv.load(Ordering::Relaxed), skipped: 0, note: format!("renders not reaching the broken partial (per reference) and re-run with it replaced/removed: {}", unaffected.load(Ordering::Relaxed)) });
}

fn language() -> Arc<liquid_core::parser::Language> {
    use liquid_lib::stdlib;
    let mut l = liquid_core::parser::Language::empty();
    l.blocks.register("if".to_string(), stdlib::IfBlock.into());
    l.blocks.register("for".to_string(), stdlib::ForBlock.into());
    l.tags.register("assign".to_string(), stdlib::AssignTag.into());
    l.tags.register("include".to_string(), stdlib::IncludeTag.into());
    l.tags.register("cycle".to_string(), stdlib::CycleTag.into());
    Arc::new(l)
}

fn store_source() -> InMemorySource {
    let mut s = InMemorySource::new();
    s.add("valid", "V{% cycle 'a', 'b' %}");
    s.add("broken", "{% if %}{{ !! }}");
    s.add("nested", "N{% include 'valid' %}");
    s
}

const API_NAMES: [&str; 6] = ["valid", "broken", "absent", "valid.liquid", "nested", " valid"];

fn observe(store: &dyn PartialStore, op: u64) -> String {
    let n = API_NAMES[(op / 4) as usize];
    let render = |r: Arc<dyn Renderable>| -> String {
        let rt = RuntimeBuilder::new().set_partials(store).build();
        let mut buf = Vec::new();
        match r.render_to(&mut buf, &rt) {
            Ok(()) => format!("rendered:{}", String::from_utf8_lossy(&buf)),
            Err(_) => "render-err".to_string(),
        }
    };
    match op % 4 {
        0 => match store.get(n) {
            Ok(r) => format!("get({n})=ok:{}", render(r)),
            Err(_) => format!("get({n})=err"),
        },
        1 => match store.try_get(n) {
            Some(r) => format!("try_get({n})=some:{}", render(r)),
            None => format!("try_get({n})=none"),
        },
        2 => format!("contains({n})={}", store.contains(n)),
        _ => {
            let mut names: Vec<String> = store.names().into_iter().map(|s| s.to_string()).collect();
            names.sort();
            format!("names()={names:?}")
        }
    }
}

fn store_api(report: &Report, k: u32) {
    let ops = (API_NAMES.len() * 4) as u64;
    let total = seq_count(ops, k);
    let name = format!("store-api/sequences<={k}");
    let lang = language();
    let nontriv = AtomicU64::new(0);
    let calls = AtomicU64::new(0);
    // first-use observation of every op on a fresh store of each kind
    let fresh = |which: usize| -> Box<dyn PartialStore + Send + Sync> {
        match which {
            0 => EagerCompiler::new(store_source()).compile(lang.clone()).expect("compile"),
            1 => LazyCompiler::new(store_source()).compile(lang.clone()).expect("compile"),
            _ => OnDemandCompiler::new(store_source()).compile(lang.clone()).expect("compile"),
        }
    };
    par_range(
        report,
        &name,
        total,
        |i| {
            let seq = seq_decode(i, ops, k);
            if seq.is_empty() {
                return;
            }
            let r = guard(|| {
                let stores = [fresh(0), fresh(1), fresh(2)];
                let mut all: Vec<Vec<String>> = Vec::new();
                for s in &stores {
                    all.push(seq.iter().map(|op| observe(s.as_ref(), *op)).collect());
                }
                all
            });
            report.evals(3 * seq.len() as u64);
            calls.fetch_add(3 * seq.len() as u64, Ordering::Relaxed);
            let w = || json!({"kind":"store-api","sequence":seq.iter().map(|op| format!("{}({})", ["get","try_get","contains","names"][(*op % 4) as usize], API_NAMES[(*op / 4) as usize])).collect::<Vec<_>>()});
            let all = match r {
                Err(pi) => {
                    report.violation(&format!("C19|store-api|{}", pi.sig()), i, w(), pi.describe());
                    return;
                }
                Ok(a) => a,
            };
            if all[0] != all[1] || all[0] != all[2] {
                let mut wj = w();
                wj["eager"] = json!(all[0]);
                wj["lazy"] = json!(all[1]);
                wj["ondemand"] = json!(all[2]);
                report.violation("C19|store-api|stores-disagree", i, wj, format!("eager={:?} lazy={:?} ondemand={:?}", all[0], all[1], all[2]));
                return;
            }
            // within one store: repeated identical calls give identical answers; get/try_get agree
            for (si, obs) in all.iter().enumerate() {
                for a in 0..seq.len() {
                    for b in (a + 1)..seq.len() {
                        if seq[a] == seq[b] && obs[a] != obs[b] {
                            report.violation("C19|store-api|repeated-call-differs", i, w(), format!("store {si}: {} then {}", obs[a], obs[b]));
                        }
                        if seq[a] / 4 == seq[b] / 4 {
                            let (oa, ob) = (seq[a] % 4, seq[b] % 4);
                            if (oa == 0 && ob == 1) || (oa == 1 && ob == 0) {
                                let ok_a = obs[a].contains("=ok:") || obs[a].contains("=some:");
                                let ok_b = obs[b].contains("=ok:") || obs[b].contains("=some:");
                                if ok_a != ok_b {
                                    report.violation("C19|store-api|get-and-try_get-disagree", i, w(), format!("store {si}: {} vs {}", obs[a], obs[b]));
                                }
                            }
                        }
                    }
                }
            }
            if seq.len() > 1 {
                nontriv.fetch_add(1, Ordering::Relaxed);
            }
            if i % 17 == 0 {
                report.outcome(&all[0]);
            }
        },
        |i| json!({"kind":"store-api","sequence":seq_decode(i, ops, k)}),
    );
    report.sample(json!({"family": name, "sequence": ["try_get(broken)", "get(broken)", "names()", "get(valid.liquid)"]}));
    report.states.fetch_add(total, Ordering::Relaxed);
    report.transitions.fetch_add(calls.load(Ordering::Relaxed), Ordering::Relaxed);
    report.traces.fetch_add(total, Ordering::Relaxed);
    report.nontrivial.fetch_add(nontriv.load(Ordering::Relaxed), Ordering::Relaxed);
    report.family(FamilyStat { name, cases: total, nontrivial: nontriv.load(Ordering::Relaxed), skipped: 0, note: format!("ops = get/try_get/contains/names x {:?}", API_NAMES) });
}


/// Partial *sources* of every lexical shape.  The scenario family varies the caller over a fixed
/// partial library; here the caller is fixed and the partial's text is every sequence of <= k
/// items from a lexical alphabet (plain text, lone `{ } %`, quotes, non-ASCII, references to absent partials on dead and live paths, output / tag / block
/// markup with and without trim markers, raw, comment, and broken markup).  Whatever a policy does
/// with a source before or instead of parsing it (a shortcut for "static" text, a pre-scan, a
/// normalisation) must not be observable: the three policies agree on include and on render, and
/// a second use equals the first.
fn partial_sources(report: &Report, k: u32) {
    let items = [
        "a", " ", "\n", "{", "}", "%", "{ ", "'", "\"", "é", "{{ x }}", "{{- x -}}", "{% if x %}T{% endif %}", "{%- assign y = 'Y' -%}{{ y }}", "{% raw %}{{ r }}{% endraw %}",
        "{% comment %}c{% endcomment %}", "{{ !! }}", "{% if", "{% endif %}", "{{ x",
        // references to absent partials on paths the render does not take (and one it does take)
        "{% if false %}{% include 'gone' %}{% endif %}", "{% if x %}A{% else %}{%- render \"gone\" -%}{% endif %}", "{% for i in nothing %}{% include 'gone' %}{% endfor %}", "{% include 'gone' %}",
    ];
    let n = items.len() as u64;
    let total = seq_count(n, k);
    let name = format!("partial-sources/items<={k}");
    let nontriv = AtomicU64::new(0);
    let main = "<{% include 'p' %}|{% render 'p', x: x %}|{% include 'p' %}>";
    let data = cfgs::globals(&[("x", crate::val::V::s("X"))]);
    par_range(
        report,
        &name,
        total,
        |i| {
            let body: String = seq_decode(i, n, k).iter().map(|t| items[*t as usize]).collect();
            let partials = vec![("p".to_string(), body.clone())];
            let w = || json!({"kind":"policies","template":main,"data":{"x":"X"},"partials":partials});
            let mut outs: Vec<(String, String)> = Vec::new();
            for pol in POLICIES {
                report.evals(2);
                let r = guard(|| -> Result<(Outcome, Outcome), String> {
                    let parser = cfgs::build(Config::Stdlib, pol, &partials)?;
                    let t = parser.parse(main).map_err(|e| e.to_string())?;
                    Ok((render_once(&t, &data), render_once(&t, &data)))
                });
                match r {
                    Err(pi) => {
                        report.violation(&format!("C19|partial-sources|{}", pi.sig()), i, w(), pi.describe());
                        return;
                    }
                    Ok(Err(e)) => {
                        report.violation("C19|build-or-main-parse-fails-because-of-a-partial", i, w(), format!("{pol:?}: {e}"));
                        return;
                    }
                    Ok(Ok((a, b))) => {
                        if norm(&a) != norm(&b) {
                            report.violation("C19|partial-sources|second-use-differs", i, w(), format!("{pol:?}: first {} then {}", a.short(), b.short()));
                        }
                        outs.push((format!("{pol:?}"), norm(&a)));
                    }
                }
            }
            if outs.iter().any(|(_, o)| *o != outs[0].1) {
                let mut wj = w();
                wj["outcomes"] = json!(outs);
                report.violation("C19|partial-sources|policies-disagree", i, wj, format!("partial {body:?}: {outs:?}"));
            } else {
                if outs[0].1.starts_with("ok:") {
                    nontriv.fetch_add(1, Ordering::Relaxed);
                }
                if i % 13 == 0 {
                    report.outcome(&outs[0].1);
                }
            }
        },
        |i| json!({"kind":"policies","template":main,"partials":[["p", seq_decode(i, n, k).iter().map(|t| items[*t as usize]).collect::<String>()]]}),
    );
    report.states.fetch_add(total, Ordering::Relaxed);
    report.transitions.fetch_add(total * 6, Ordering::Relaxed);
    report.traces.fetch_add(total, Ordering::Relaxed);
    report.nontrivial.fetch_add(nontriv.load(Ordering::Relaxed), Ordering::Relaxed);
    report.family(FamilyStat { name, cases: total, nontrivial: nontriv.load(Ordering::Relaxed), skipped: 0, note: format!("partial text = every sequence of <= {k} of {} lexical items; caller includes, renders and includes it again under the three policies", items.len()) });
}

/// silence unused warning for Partial import in some configurations
#[allow(dead_code)]
fn _t(_: Partial) {}

pub fn run(tier: Tier) -> i32 {
    let report = Report::new("C19", tier, "model_checking");
    report.set_rule("(i) every generated C08 scenario (main template x 15-partial library with a broken and an absent partial x 2 data) rendered d0,d1,d0 on one parser per compilation policy: the three policies must agree on every output / first error line, the third use must equal the first, and renders that per the reference interpreter do not reach the broken partial must be unchanged when it is replaced by a valid one or removed; (ii) all sequences of <= k PartialStore API calls (get/try_get/contains/names x 5 names) on three fresh stores over one source: observation sequences must be identical across stores, repeated calls identical, get/try_get agree; states = scenarios + call sequences, transitions = renders + API calls, (iii) partial sources of every lexical shape (all sequences of <= k lexical items incl. lone braces, quotes, trim markers, raw, comment, broken markup) included and rendered under the three policies; traces_validated = scenarios/sequences compared across the three implementations");
    report.assume("sources are in-memory with a truthful name listing (as the statement says)");
    scenarios(&report, if tier.thorough() { 3 } else { 2 });
    store_api(&report, if tier.thorough() { 4 } else { 3 });
    partial_sources(&report, if tier.thorough() { 4 } else { 3 });
    report.finish()
}
