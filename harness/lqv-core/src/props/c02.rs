//! C02 — rendering is total: any template on any data yields output or an error.

use crate::cfgs::{self, Config, Policy};
use crate::report::{FamilyStat, Report, Tier};
use crate::run::{decode, guard, par_range, product};
use crate::val::{pool, V};
use liquid::reflection::ParserReflection;
use serde_json::json;
use std::sync::atomic::{AtomicU64, Ordering};

/// Render through `render_to` into a byte sink; the oracle is: returns, and the bytes are UTF-8.
fn total_render(report: &Report, class: &str, idx: u64, parser: &liquid::Parser, text: &str, data: &V, globals: &liquid::Object, nontriv: &AtomicU64, parse_errs: &AtomicU64) {
    report.eval();
    let w = || json!({"kind":"render","template":text,"data":data.to_json(),"partials":[]});
    let t = match cfgs::parse_guarded(parser, text) {
        Err(pi) => {
            report.violation(&format!("C02|{class}|parse-{}", pi.sig()), idx, w(), pi.describe());
            return;
        }
        Ok(Err(_)) => {
            parse_errs.fetch_add(1, Ordering::Relaxed);
            return;
        }
        Ok(Ok(t)) => t,
    };
    let mut buf: Vec<u8> = Vec::new();
    let r = guard(|| t.render_to(&mut buf, globals).map_err(|e| e.to_string()));
    match r {
        Err(pi) => {
            report.violation(&format!("C02|{class}|{}", pi.sig()), idx, w(), pi.describe());
        }
        Ok(res) => {
            if std::str::from_utf8(&buf).is_err() {
                report.violation(&format!("C02|{class}|output-not-utf8"), idx, w(), format!("bytes {:?}", &buf[..buf.len().min(40)]));
            }
            match res {
                Ok(()) => {
                    nontriv.fetch_add(1, Ordering::Relaxed);
                    if idx % 997 == 0 {
                        report.outcome(&buf);
                    }
                }
                Err(m) => {
                    if m.trim().is_empty() {
                        report.violation(&format!("C02|{class}|error-without-message"), idx, w(), "empty error".into());
                    }
                    if idx % 997 == 0 {
                        report.outcome(&crate::cfgs::first_line(&m));
                    }
                }
            }
        }
    }
}

fn filter_names(parser: &liquid::Parser) -> Vec<(String, Vec<String>)> {
    let mut v: Vec<(String, Vec<String>)> = parser
        .filters()
        .map(|f| (f.name().to_string(), f.keyword_parameters().iter().map(|p| p.name.to_string()).collect()))
        .filter(|(n, _)| n != "dump")
        .collect();
    v.sort();
    v
}

fn filter_matrix(report: &Report, full: bool) {
    let vals = pool(full);
    let n = vals.len() as u64;
    for (pname, parser) in [("full", cfgs::parser(Config::Full)), ("jekyll-sort", cfgs::parser_jekyll_sort())] {
        let mut filters = filter_names(&parser);
        if pname == "jekyll-sort" {
            filters.retain(|(f, _)| f == "sort");
        }
        // argument shapes: 0 args, 1 arg, 2 args (variables); literal variants for 1 arg; keyword variants
        // radices: filter, input, a, b, shape
        // shape: 0 none, 1 one var, 2 two vars, 3 one literal (if exists), 4 input literal + one var, 5 keyword(first kw) var, 6 three vars
        let rad = [filters.len() as u64, n, n, n, 7];
        let total = product(&rad);
        let name = format!("filter-matrix/{pname}/pool={}", vals.len());
        let nontriv = AtomicU64::new(0);
        let parse_errs = AtomicU64::new(0);
        let cases = AtomicU64::new(0);
        let build = |i: u64| -> Option<(String, V, String)> {
            let d = decode(i, &rad);
            let (f, kws) = &filters[d[0] as usize];
            let (vi, va, vb) = (&vals[d[1] as usize], &vals[d[2] as usize], &vals[d[3] as usize]);
            let shape = d[4];
            // avoid enumerating unused dimensions more than once
            match shape {
                0 if d[2] != 0 || d[3] != 0 => return None,
                1 | 3 | 4 | 5 if d[3] != 0 => return None,
                _ => {}
            }
            let text = match shape {
                0 => format!("{{{{ i | {f} }}}}"),
                1 => format!("{{{{ i | {f}: a }}}}"),
                2 => format!("{{{{ i | {f}: a, b }}}}"),
                3 => format!("{{{{ i | {f}: {} }}}}", va.literal()?),
                4 => format!("{{{{ {} | {f}: a }}}}", vi.literal()?),
                5 => format!("{{{{ i | {f}: {}: a }}}}", kws.first()?),
                _ => format!("{{{{ i | {f}: a, b, a }}}}"),
            };
            let data = V::obj(&[("i", vi.clone()), ("a", va.clone()), ("b", vb.clone())]);
            Some((text, data, f.clone()))
        };
        par_range(
            report,
            &name,
            total,
            |i| {
                let Some((text, data, f)) = build(i) else { return };
                cases.fetch_add(1, Ordering::Relaxed);
                total_render(report, &format!("filter={f}"), i, &parser, &text, &data, &data.to_object(), &nontriv, &parse_errs);
            },
            |i| build(i).map(|(t, d, _)| json!({"kind":"render","template":t,"data":d.to_json(),"partials":[]})).unwrap_or(json!(null)),
        );
        if let Some((t, d, _)) = build(total / 2 + 1) {
            report.sample(json!({"family": name, "template": t, "data": d.to_json()}));
        }
        report.nontrivial.fetch_add(nontriv.load(Ordering::Relaxed), Ordering::Relaxed);
        report.family(FamilyStat {
            name,
            cases: cases.load(Ordering::Relaxed),
            nontrivial: nontriv.load(Ordering::Relaxed),
            skipped: parse_errs.load(Ordering::Relaxed),
            note: format!("filters={} x inputs x argument vectors of arity 0..3 (variables, literals, keyword); skipped = rejected at parse time (arity)", filters.len()),
        });
    }
}

fn constructs(report: &Report, full: bool) {
    let vals = pool(full);
    let n = vals.len() as u64;
    let partials = vec![("p".to_string(), "<{{ x }}>".to_string()), ("10".to_string(), "ten".to_string()), ("true".to_string(), "T".to_string())];
    let parser = cfgs::build(Config::Stdlib, Policy::Eager, &partials).expect("parser");
    let ints: Vec<i64> = vec![0, 1, -1, 2, 3, 7, 10, 1 << 31, -(1 << 31), 1 << 53, 1 << 62, i64::MAX - 1, i64::MAX, i64::MIN, i64::MIN + 1];
    let nontriv = AtomicU64::new(0);
    let parse_errs = AtomicU64::new(0);
    let mut fams: Vec<(String, u64, Box<dyn Fn(u64) -> Option<(String, V)> + Sync>)> = Vec::new();
    let body = "[{{ i }}{{ forloop.index }}{{ forloop.rindex0 }}{{ forloop.last }}]";
    let trbody = "[{{ i }}{{ tablerow.col }}{{ tablerow.col_last }}{{ tablerow.rindex }}]";
    let big = |v: &V| -> bool { matches!(v, V::Arr(a) if a.len() > 30) };
    {
        let vals = vals.clone();
        fams.push((
            "for: source x limit x offset x reversed".into(),
            n * n * n * 2,
            Box::new(move |i| {
                let d = decode(i, &[n, n, n, 2]);
                let data = V::obj(&[("s", vals[d[0] as usize].clone()), ("l", vals[d[1] as usize].clone()), ("o", vals[d[2] as usize].clone())]);
                Some((format!("{{% for i in s limit:l offset:o{} %}}{body}{{% else %}}E{{% endfor %}}", if d[3] == 1 { " reversed" } else { "" }), data))
            }),
        ));
    }
    {
        let vals = vals.clone();
        fams.push((
            "tablerow: source x cols x limit x offset".into(),
            n * n * n * n,
            Box::new(move |i| {
                let d = decode(i, &[n, n, n, n]);
                if big(&vals[d[0] as usize]) && (d[2] > 12 || d[3] > 12) {
                    return None;
                }
                let data = V::obj(&[("s", vals[d[0] as usize].clone()), ("c", vals[d[1] as usize].clone()), ("l", vals[d[2] as usize].clone()), ("o", vals[d[3] as usize].clone())]);
                Some((format!("{{% tablerow i in s cols:c limit:l offset:o %}}{trbody}{{% endtablerow %}}"), data))
            }),
        ));
    }
    {
        let vals = vals.clone();
        fams.push((
            "for/tablerow with literal arguments".into(),
            n * n * 3,
            Box::new(move |i| {
                let d = decode(i, &[n, n, 3]);
                let (a, b) = (vals[d[0] as usize].literal()?, vals[d[1] as usize].literal()?);
                let data = V::obj(&[("s", V::Arr(vec![V::Int(1), V::Int(2), V::Int(3)]))]);
                Some((
                    match d[2] {
                        0 => format!("{{% for i in s limit:{a} offset:{b} %}}{body}{{% endfor %}}"),
                        1 => format!("{{% tablerow i in s cols:{a} limit:{b} %}}{trbody}{{% endtablerow %}}"),
                        _ => format!("{{% tablerow i in s cols:{a} offset:{b} %}}{trbody}{{% endtablerow %}}"),
                    },
                    data,
                ))
            }),
        ));
    }
    {
        let ints = ints.clone();
        let m = ints.len() as u64;
        fams.push((
            "ranges: integer bounds (width <= 10^4), literal and variable".into(),
            m * m * 4,
            Box::new(move |i| {
                let d = decode(i, &[m, m, 4]);
                let (a, b) = (ints[d[0] as usize], ints[d[1] as usize]);
                if (b as i128) - (a as i128) > 10_000 {
                    return None;
                }
                let data = V::obj(&[("a", V::Int(a)), ("b", V::Int(b)), ("as", V::Str(a.to_string()))]);
                Some((
                    match d[2] {
                        0 => format!("{{% for i in ({a}..{b}) %}}{body}{{% else %}}E{{% endfor %}}"),
                        1 => "{% for i in (a..b) reversed limit:3 %}[{{ i }}]{% endfor %}".to_string(),
                        2 => "{% tablerow i in (as..b) cols:2 %}[{{ i }}]{% endtablerow %}".to_string(),
                        _ => "{% render 'p' for (a..b) as x %}".to_string(),
                    },
                    data,
                ))
            }),
        ));
    }
    {
        let vals = vals.clone();
        fams.push((
            "range bounds of every kind".into(),
            n * n,
            Box::new(move |i| {
                let d = decode(i, &[n, n]);
                let (a, b) = (&vals[d[0] as usize], &vals[d[1] as usize]);
                if let (V::Int(x), V::Int(y)) = (a, b) {
                    if (*y as i128) - (*x as i128) > 10_000 {
                        return None;
                    }
                }
                // numeric strings count as integers for ranges
                let as_int = |v: &V| match v {
                    V::Int(x) => Some(*x as i128),
                    V::Str(s) => s.parse::<i64>().ok().map(|x| x as i128),
                    _ => None,
                };
                if let (Some(x), Some(y)) = (as_int(a), as_int(b)) {
                    if y - x > 10_000 {
                        return None;
                    }
                }
                Some(("{% for i in (a..b) %}[{{ i }}]{% else %}E{% endfor %}".to_string(), V::obj(&[("a", a.clone()), ("b", b.clone())])))
            }),
        ));
    }
    {
        let vals = vals.clone();
        // cycle: group form x 0..3 values
        fams.push((
            "cycle: group forms x 0..3 values".into(),
            6 * 4 * n * n,
            Box::new(move |i| {
                let d = decode(i, &[6, 4, n, n]);
                let group = ["", "g: ", "'g': ", "1: ", "x: ", "'': "][d[0] as usize];
                let k = d[1];
                if k < 2 && d[3] != 0 || k == 0 && d[2] != 0 {
                    return None;
                }
                let vs: Vec<&str> = match k {
                    0 => vec![],
                    1 => vec!["a"],
                    2 => vec!["a", "b"],
                    _ => vec!["a", "b", "a"],
                };
                if group.is_empty() && vs.is_empty() {
                    return None; // `{% cycle %}` has nothing to say
                }
                let t = format!("{{% for i in (1..4) %}}{{% cycle {group}{} %}}{{% endfor %}}", vs.join(", "));
                Some((t, V::obj(&[("a", vals[d[2] as usize].clone()), ("b", vals[d[3] as usize].clone()), ("x", V::s("gx"))])))
            }),
        ));
    }
    {
        let vals = vals.clone();
        fams.push((
            "if/unless/case operators x V x V".into(),
            n * n * 10,
            Box::new(move |i| {
                let d = decode(i, &[n, n, 10]);
                let data = V::obj(&[("a", vals[d[0] as usize].clone()), ("b", vals[d[1] as usize].clone())]);
                let t = match d[2] {
                    8 => "{% case a %}{% when b %}W{% when 1, 'x' or b %}V{% else %}E{% endcase %}".to_string(),
                    9 => "{% unless a %}{% if b and a or b %}X{% endif %}{% endunless %}{{ a }}{{ b }}".to_string(),
                    k => format!("{{% if a {} b %}}T{{% elsif b {} a %}}U{{% else %}}F{{% endif %}}", crate::ast::Op::ALL[k as usize].print(), crate::ast::Op::ALL[k as usize].print()),
                };
                Some((t, data))
            }),
        ));
    }
    {
        let vals = vals.clone();
        fams.push((
            "include/render: name x argument forms".into(),
            n * n * 8,
            Box::new(move |i| {
                let d = decode(i, &[n, n, 8]);
                let data = V::obj(&[("nm", vals[d[0] as usize].clone()), ("v", vals[d[1] as usize].clone())]);
                let t = match d[2] {
                    0 => "{% include nm %}",
                    1 => "{% include nm x: v %}",
                    2 => "{% render nm %}",
                    3 => "{% render nm, x: v %}",
                    4 => "{% render nm with v as x %}",
                    5 => "{% render nm for v as x %}",
                    6 => "{% render 'p' for v as x %}",
                    _ => "{% include 'p' x: v, y: nm %}{% render 'p' with nm as x, x: v %}",
                };
                Some((t.to_string(), data))
            }),
        ));
    }
    {
        let vals = vals.clone();
        fams.push((
            "counters/assign/capture colliding with data; paths into every value".into(),
            n * 6,
            Box::new(move |i| {
                let d = decode(i, &[n, 6]);
                let data = V::obj(&[("x", vals[d[0] as usize].clone())]);
                let t = match d[1] {
                    0 => "{% increment x %}{% increment x %}{{ x }}{% decrement x %}",
                    1 => "{% assign x = x %}{{ x }}{% capture x %}{{ x }}{% endcapture %}{{ x }}",
                    2 => "{{ x.size }}{{ x.first }}{{ x.last }}",
                    3 => "{{ x[0] }}{{ x[-1] }}{{ x['k'] }}",
                    4 => "{{ x[x] }}",
                    _ => "{% ifchanged %}{{ x }}{% endifchanged %}{% for i in x %}{% ifchanged %}{{ i }}{% endifchanged %}{% endfor %}",
                };
                Some((t.to_string(), data))
            }),
        ));
    }
    {
        // every pool value as a container, every pool value as an index, one lookup per template (a failing lookup
        // must not hide the next one), plus literal negative indexes around the array lengths in the pool (0, 1, 3, 25, 40)
        let vals = vals.clone();
        const SHAPES: [&str; 20] = [
            "{{ c[i] }}",
            "{% if c[i] %}T{% else %}F{% endif %}",
            "{{ c[i][i] }}",
            "{% for e in c[i] %}{{ e }}{% endfor %}",
            "{% assign v = c[i] %}{{ v }}",
            "{{ c.first[i] }}",
            "{{ c[i].size }}",
            "{{ c[-1] }}",
            "{{ c[-2] }}",
            "{{ c[-4] }}",
            "{{ c[-26] }}",
            "{{ c[-41] }}",
            "{{ c.last[-1] }}",
            "{% if c[-1] %}T{% endif %}{% unless c[-4] %}U{% endunless %}",
            "{{ c.size }}",
            "{{ c.first }}",
            "{{ c.last }}",
            "{{ c['k'] }}",
            "{{ c.first.size }}",
            "{{ c.last.last }}",
        ];
        fams.push((
            "index paths: container x index".into(),
            n * n * SHAPES.len() as u64,
            Box::new(move |i| {
                let d = decode(i, &[n, n, SHAPES.len() as u64]);
                if d[2] >= 7 && d[1] != 0 {
                    return None; // the literal-index shapes do not use `i`
                }
                let data = V::obj(&[("c", vals[d[0] as usize].clone()), ("i", vals[d[1] as usize].clone())]);
                Some((SHAPES[d[2] as usize].to_string(), data))
            }),
        ));
    }
    for (name, total, build) in fams {
        let cases = AtomicU64::new(0);
        let nt0 = nontriv.load(Ordering::Relaxed);
        par_range(
            report,
            &name,
            total,
            |i| {
                let Some((text, data)) = build(i) else { return };
                cases.fetch_add(1, Ordering::Relaxed);
                let class = name.split(':').next().unwrap_or("construct");
                total_render(report, &format!("construct={class}"), i, &parser, &text, &data, &data.to_object(), &nontriv, &parse_errs);
            },
            |i| build(i).map(|(t, d)| json!({"kind":"render","template":t,"data":d.to_json(),"partials":partials})).unwrap_or(json!(null)),
        );
        if let Some((t, d)) = build(total / 2) {
            report.sample(json!({"family": name, "template": t, "data": d.to_json()}));
        }
        report.family(FamilyStat { name, cases: cases.load(Ordering::Relaxed), nontrivial: nontriv.load(Ordering::Relaxed) - nt0, skipped: 0, note: String::new() });
    }
    report.nontrivial.fetch_add(nontriv.load(Ordering::Relaxed), Ordering::Relaxed);
}


/// Wide non-ASCII data in every position an error message (or a trace) may quote: object keys,
/// string values, index expressions, partial names, filter inputs and arguments.  The strings are
/// `"a"*s + c*N` for 2-, 3- and 4-byte characters `c` and every shift `s`, so that a byte-based cut
/// at *any* offset lands inside a character for at least one of them.
fn error_paths(report: &Report) {
    let parser = {
        let partials = vec![("p".to_string(), "<{{ x }}>".to_string())];
        cfgs::build(Config::Full, Policy::Eager, &partials).expect("parser")
    };
    let mut wides: Vec<String> = Vec::new();
    for (c, width, n) in [('é', 2usize, 150usize), ('語', 3, 100), ('👍', 4, 75)] {
        for s in 0..width {
            wides.push(format!("{}{}", "a".repeat(s), c.to_string().repeat(n)));
        }
    }
    // multi-key objects whose joined key lists are long and non-ASCII at staggered offsets
    let many_keys = |c: char, k: usize| V::Obj((0..12).map(|i| (format!("{}{}{}", "k".repeat(i % k), c.to_string().repeat(4), i), V::Int(i as i64))).collect());
    let filters = filter_names(&parser);
    let templates: Vec<String> = {
        let mut t: Vec<String> = [
            "{{ o.missing }}", "{{ o['missing'] }}", "{{ o.missing.deeper }}", "{{ o[w] }}", "{{ o[w].x }}", "{{ arr[w] }}", "{{ w.missing }}", "{{ w[0] }}", "{{ w[w] }}",
            "{{ n.o.missing }}", "{{ n.missing }}", "{{ m.missing }}", "{{ m[w] }}", "{{ missing }}", "{{ arr[99] }}", "{{ arr.missing }}",
            "{% assign x = o.missing %}", "{% assign x = m.missing | upcase %}", "{% if o.missing == 1 %}{% endif %}", "{% if m contains o.missing %}{% endif %}", "{% unless w.x %}{{ w.x }}{% endunless %}",
            "{% for i in o.missing %}{% endfor %}", "{% for i in w %}{% endfor %}", "{% for i in (1..w) %}{% endfor %}", "{% for i in (w..2) %}{% endfor %}", "{% for i in arr limit: w %}{% endfor %}", "{% for i in arr offset: w %}{% endfor %}",
            "{% tablerow i in arr cols: w %}{% endtablerow %}", "{% tablerow i in w %}{% endtablerow %}", "{% include w %}", "{% include 'p' x: o.missing %}", "{% include o.missing %}", "{% render 'p', x: m.missing %}", "{% render 'p' for w as x %}",
            "{% cycle w: 1, 2 %}", "{% cycle o.missing, 2 %}", "{% case o.missing %}{% when 1 %}{% endcase %}", "{% case 1 %}{% when m.missing %}{% endcase %}", "{% capture c %}{{ o.missing }}{% endcapture %}",
            "{% for i in arr %}{% for j in arr %}{{ o.missing }}{% endfor %}{% endfor %}", "{% increment w %}{{ w.missing }}", "{% ifchanged %}{{ m.missing }}{% endifchanged %}",
        ].iter().map(|s| s.to_string()).collect();
        for (f, kws) in &filters {
            t.push(format!("{{{{ w | {f} }}}}"));
            t.push(format!("{{{{ w | {f}: w }}}}"));
            t.push(format!("{{{{ w | {f}: w, w }}}}"));
            t.push(format!("{{{{ 1 | {f}: w }}}}"));
            t.push(format!("{{{{ arr | {f}: w }}}}"));
            t.push(format!("{{{{ m | {f}: w }}}}"));
            t.push(format!("{{{{ w | {f}: o.missing }}}}"));
            t.push(format!("{{{{ o.missing | {f} }}}}"));
            t.push(format!("{{{{ ms | {f}: w }}}}"));
            if let Some(k) = kws.first() {
                t.push(format!("{{{{ w | {f}: {k}: w }}}}"));
            }
        }
        t
    };
    let datas: Vec<V> = wides
        .iter()
        .enumerate()
        .map(|(i, w)| {
            let c = w.chars().last().unwrap();
            V::obj(&[
                ("w", V::s(w)),
                ("o", V::Obj(vec![(w.clone(), V::Int(1))])),
                ("m", many_keys(c, 1 + i % 4)),
                ("ms", V::Arr(vec![V::Obj(vec![(w.clone(), V::s(w))]), many_keys(c, 2)])),
                ("n", V::obj(&[("o", V::Obj(vec![(w.clone(), V::Nil)]))])),
                ("arr", V::Arr(vec![V::s(w), V::Int(1)])),
            ])
        })
        .collect();
    let globals: Vec<liquid::Object> = datas.iter().map(|d| d.to_object()).collect();
    let total = (templates.len() * datas.len()) as u64;
    let name = format!("error-paths: {} error-prone constructs and filter calls x {} wide non-ASCII data objects", templates.len(), datas.len());
    let nontriv = AtomicU64::new(0);
    let parse_errs = AtomicU64::new(0);
    par_range(
        report,
        &name,
        total,
        |i| {
            let (ti, di) = ((i / datas.len() as u64) as usize, (i % datas.len() as u64) as usize);
            total_render(report, "error-paths", i, &parser, &templates[ti], &datas[di], &globals[di], &nontriv, &parse_errs);
        },
        |i| json!({"kind":"render","template":templates[(i / datas.len() as u64) as usize],"data":datas[(i % datas.len() as u64) as usize].to_json(),"partials":[["p","<{{ x }}>"]]}),
    );
    report.sample(json!({"family": name, "template": templates[0], "data_keys": "w (wide string), o {w: 1}, m (12 non-ASCII keys), ms, n, arr"}));
    // here an *error* is the interesting outcome: count every completed render as non-trivial
    report.nontrivial.fetch_add(total - parse_errs.load(Ordering::Relaxed), Ordering::Relaxed);
    report.family(FamilyStat { name, cases: total, nontrivial: total - parse_errs.load(Ordering::Relaxed), skipped: parse_errs.load(Ordering::Relaxed), note: "strings \"a\"*s + c*N for 2/3/4-byte c and every shift s (a byte cut at any offset splits a character in one of them); errors are expected, panics and non-UTF-8 are not".into() });
}


/// Every filter on strings in which a *trigger character* (one that string filters search for or
/// treat specially) is followed, at every byte shift, by 2-, 3- and 4-byte characters: a byte
/// offset computed from the trigger (a look-ahead of k bytes, a fixed-width slice, a length
/// compared in bytes) lands inside a character for some shift.
fn awkward_strings(report: &Report) {
    let parser = cfgs::parser(Config::Full);
    let triggers = ["&", "<", ">", "%", "+", "'", "\"", " ", "\n", ",", "/", "-", ".", ":", "&#", "&a", "</", "%2", "1", "{", "%:", "%::", "%:::", "%-", "%10", "%E", "%^:"];
    let mut strings: Vec<String> = Vec::new();
    for t in triggers {
        for c in ['é', '語', '👍'] {
            for s in 0..4 {
                strings.push(format!("{t}{}{}{t}{}", "a".repeat(s), c.to_string().repeat(5), c));
            }
        }
    }
    let filters = filter_names(&parser);
    let mut templates: Vec<String> = Vec::new();
    for (f, _) in &filters {
        templates.push(format!("{{{{ w | {f} }}}}"));
        templates.push(format!("{{{{ w | {f}: w }}}}"));
        templates.push(format!("{{{{ w | {f}: 3 }}}}"));
        templates.push(format!("{{{{ w | {f}: w, w }}}}"));
        templates.push(format!("{{{{ w | {f}: 2, w }}}}"));
        templates.push(format!("{{{{ w | {f}: -4, 3 }}}}"));
        // an input that parses as a date / a number, so that filters which give up on other inputs reach their argument
        templates.push(format!("{{{{ '2020-02-29 12:00:00 +0530' | {f}: w }}}}"));
        templates.push(format!("{{{{ '2020-02-29 12:00:00 +0530' | {f}: w, 3 }}}}"));
        templates.push(format!("{{{{ 7 | {f}: w }}}}"));
    }
    let datas: Vec<V> = strings.iter().map(|w| V::obj(&[("w", V::s(w))])).collect();
    let globals: Vec<liquid::Object> = datas.iter().map(|d| d.to_object()).collect();
    let total = (templates.len() * datas.len()) as u64;
    let name = format!("awkward strings: {} filter calls x {} strings (trigger + shift + multi-byte run)", templates.len(), datas.len());
    let nontriv = AtomicU64::new(0);
    let parse_errs = AtomicU64::new(0);
    par_range(
        report,
        &name,
        total,
        |i| {
            let (ti, di) = ((i / datas.len() as u64) as usize, (i % datas.len() as u64) as usize);
            total_render(report, "awkward-strings", i, &parser, &templates[ti], &datas[di], &globals[di], &nontriv, &parse_errs);
        },
        |i| json!({"kind":"render","template":templates[(i / datas.len() as u64) as usize],"data":datas[(i % datas.len() as u64) as usize].to_json(),"partials":[]}),
    );
    report.nontrivial.fetch_add(nontriv.load(Ordering::Relaxed), Ordering::Relaxed);
    report.family(FamilyStat { name, cases: total, nontrivial: nontriv.load(Ordering::Relaxed), skipped: parse_errs.load(Ordering::Relaxed), note: format!("triggers {:?} x shifts 0..3 x {{é, 語, 👍}}; every registered filter at arity 0..2", triggers) });
}

/// Generated well-formed programs rendered on type-confused data.
fn confused_programs(report: &Report, thorough: bool) {
    use crate::props::c08;
    let max_n = if thorough { 3 } else { 2 };
    let g = c08::grammar(max_n);
    let total = g.count_upto(max_n);
    let (src, _) = c08::library_sources();
    let parser = cfgs::build(Config::Stdlib, Policy::Eager, &src).expect("parser");
    let confused = [
        V::obj(&[("arr", V::s("string-not-array")), ("x", V::Arr(vec![])), ("y", V::Int(i64::MAX)), ("pn", V::Int(3)), ("pm", V::Nil)]),
        V::obj(&[("arr", V::Int(5)), ("x", V::obj(&[("k", V::Nil)])), ("y", V::Float(f64::NAN)), ("pn", V::Arr(vec![V::s("p_probe")])), ("pm", V::Bool(true))]),
        V::obj(&[("arr", V::obj(&[("k", V::Int(1))])), ("x", V::Bool(false)), ("y", V::Nil), ("pn", V::s("")), ("pm", V::s("broken")), ("forloop", V::s("shadowed"))]),
        V::obj(&[("arr", V::Arr(crate::val::mixed_array(25))), ("x", V::s("é")), ("y", V::Arr(vec![V::Nil])), ("c", V::s("not-a-number")), ("nothing", V::Int(1))]),
        V::Obj(vec![]),
        V::obj(&[("arr", V::Nil), ("x", V::Empty), ("y", V::Blank), ("pn", V::DateTime("2020-02-29 23:59:59 +0530".into())), ("pm", V::Date(2020, 2, 29))]),
    ];
    let globals: Vec<liquid::Object> = confused.iter().map(|d| d.to_object()).collect();
    let name = format!("generated-programs/N<={max_n} x {} type-confused data objects", confused.len());
    let nontriv = AtomicU64::new(0);
    let parse_errs = AtomicU64::new(0);
    par_range(
        report,
        &name,
        total,
        |i| {
            let (_, textp) = c08::build_program(&g, i, max_n);
            for (di, d) in confused.iter().enumerate() {
                total_render(report, "generated", i * 8 + di as u64, &parser, &textp, d, &globals[di], &nontriv, &parse_errs);
            }
        },
        |i| json!({"kind":"render","template":c08::build_program(&g, i, max_n).1,"partials":src}),
    );
    report.nontrivial.fetch_add(nontriv.load(Ordering::Relaxed), Ordering::Relaxed);
    report.family(FamilyStat { name, cases: total * confused.len() as u64, nontrivial: nontriv.load(Ordering::Relaxed), skipped: 0, note: "programs of the C08 generator (include/render/for/if/capture/assign/cycle/increment)".into() });
}

/// Date-times at both ends of the representable range through every date-taking filter with every whole-hour
/// offset: shifting the offset moves the local date-time past the end of the range.
fn dates_at_the_ends(report: &Report) {
    let parser = cfgs::parser(Config::Full);
    let stamps = [
        "9999-12-31 23:59:59 +0000", "9999-12-31 23:59:59 -1200", "9999-12-31 00:00:00 +1400", "9999-12-30 12:00:00 +0000",
        "0001-01-01 00:00:00 +0000", "0001-01-01 00:00:00 +1400", "0001-01-01 23:59:59 -1200", "0001-01-02 12:00:00 +0000",
        "0000-01-01 00:00:00 +0000", "-9999-01-01 00:00:00 +0000", "2020-02-29 23:59:59 +0530",
    ];
    let zones: Vec<i64> = (-26..=26).chain([100, -100, 2147483647, -2147483648, i64::MAX, i64::MIN]).collect();
    let formats = ["%Y-%m-%d %H:%M:%S %z", "%s", "%c", "%G-%V-%u %j %U"];
    let rad = [stamps.len() as u64, 2, zones.len() as u64, formats.len() as u64, 3];
    let total = product(&rad);
    let nontriv = AtomicU64::new(0);
    let parse_errs = AtomicU64::new(0);
    let build = |i: u64| -> (String, V) {
        let d = decode(i, &rad);
        let ts = stamps[d[0] as usize];
        let v = if d[1] == 0 { V::Str(ts.to_string()) } else { V::DateTime(ts.to_string()) };
        let data = V::obj(&[("ts", v), ("tz", V::Int(zones[d[2] as usize])), ("f", V::s(formats[d[3] as usize]))]);
        let text = match d[4] {
            0 => "{{ ts | date_in_tz: f, tz }}",
            1 => "{{ ts | date: f }}|{{ ts }}",
            _ => "{{ ts | date_in_tz: f, tz | date: f }}|{% assign d = ts | date_in_tz: '%Y-%m-%d %H:%M:%S %z', tz %}{{ d | date: f }}",
        };
        (text.to_string(), data)
    };
    let name = "dates at the ends of the range x offsets".to_string();
    par_range(
        report,
        &name,
        total,
        |i| {
            let (text, data) = build(i);
            // a date-time the value model itself refuses to build is not a case
            if guard(|| data.to_object()).is_err() {
                report.skip();
                return;
            }
            total_render(report, "filter=date_in_tz|range-ends", i, &parser, &text, &data, &data.to_object(), &nontriv, &parse_errs);
        },
        |i| {
            let (t, d) = build(i);
            json!({"kind":"render","template":t,"data":d.to_json(),"partials":[]})
        },
    );
    report.nontrivial.fetch_add(nontriv.load(Ordering::Relaxed), Ordering::Relaxed);
    report.family(FamilyStat { name, cases: total, nontrivial: nontriv.load(Ordering::Relaxed), skipped: parse_errs.load(Ordering::Relaxed), note: format!("{} timestamps (first / last representable days, year 0 and negative years, one ordinary) as text and as date-time values x {} offsets (every whole hour in -26..26 and extremes) x {} formats x date / date_in_tz / chained", stamps.len(), zones.len(), formats.len()) });
}

/// Arrays longer than 20 elements (where the standard sort starts checking that its comparator is a total
/// order, and where quadratic helpers become visible) through every filter: all periodic arrays pattern^k,
/// |pattern| <= 3, over a pool whose members are ordered differently as numbers, as text and by kind.
fn long_arrays(report: &Report, full: bool) {
    let pool: Vec<V> = vec![V::Int(9), V::Int(10), V::Float(9.5), V::s("1a"), V::s("10"), V::s("B"), V::Nil, V::Bool(true), V::obj(&[("k", V::Int(10))]), V::obj(&[("k", V::s("1a"))])];
    let lens: &[usize] = if full { &[21, 22, 33, 64] } else { &[21, 33] };
    let parser = cfgs::parser(Config::Full);
    let filters = filter_names(&parser);
    let n = pool.len() as u64;
    let np = crate::run::seq_count(n, 3) - 1;
    // shape: 0 no argument, 1 property "k", 2 the array itself as argument, 3 an integer
    let rad = [filters.len() as u64, np, lens.len() as u64, 4];
    let total = product(&rad);
    let nontriv = AtomicU64::new(0);
    let parse_errs = AtomicU64::new(0);
    let build = |i: u64| -> (String, V, String) {
        let d = decode(i, &rad);
        let f = &filters[d[0] as usize].0;
        let pat: Vec<V> = crate::run::seq_decode(d[1] + 1, n, 3).iter().map(|k| pool[*k as usize].clone()).collect();
        let l = lens[d[2] as usize];
        let a: Vec<V> = (0..l).map(|j| pat[j % pat.len()].clone()).collect();
        let text = match d[3] {
            0 => format!("{{{{ a | {f} }}}}"),
            1 => format!("{{{{ a | {f}: 'k' }}}}"),
            2 => format!("{{{{ a | {f}: a }}}}"),
            _ => format!("{{{{ a | {f}: 2 }}}}"),
        };
        (text, V::obj(&[("a", V::Arr(a))]), f.clone())
    };
    let name = format!("long arrays/L in {lens:?}");
    par_range(
        report,
        &name,
        total,
        |i| {
            let (text, data, f) = build(i);
            total_render(report, &format!("filter={f}|long-array"), i, &parser, &text, &data, &data.to_object(), &nontriv, &parse_errs);
        },
        |i| {
            let (t, d, _) = build(i);
            json!({"kind":"render","template":t,"data":d.to_json(),"partials":[]})
        },
    );
    report.nontrivial.fetch_add(nontriv.load(Ordering::Relaxed), Ordering::Relaxed);
    report.family(FamilyStat { name, cases: total, nontrivial: nontriv.load(Ordering::Relaxed), skipped: parse_errs.load(Ordering::Relaxed), note: format!("{} filters x {} periodic arrays (patterns of length <= 3 over 9, 10, 9.5, \"1a\", \"10\", \"B\", nil, true, two objects) x lengths x 4 argument shapes (none, 'k', the array, 2)", filters.len(), np) });
}

/// Long arrays of pairwise *distinct* elements in which numbers and digit-leading texts alternate by every
/// periodic kind pattern (|pattern| <= 4), in several arrangements.  A comparator that orders numbers one way
/// and everything else another way has many distinct cyclic triples here, which is what makes the standard
/// sort's consistency check fire (repeated elements, as in `long_arrays`, rarely do).
fn long_distinct_arrays(report: &Report, full: bool) {
    let lens: &[usize] = if full { &[21, 22, 23, 24, 33, 48] } else { &[21, 24, 33] };
    let parser = cfgs::parser(Config::Full);
    let filters = filter_names(&parser);
    let mut arrays: Vec<(String, V)> = Vec::new();
    for &l in lens {
        for plen in 1..=4usize {
            for bits in 0..(1u32 << plen) {
                let elem = |j: usize| -> V {
                    let n = (j * 37 % 250 + 1) as i64; // distinct for j < 250, one to three digits
                    match ((bits >> (j % plen)) & 1, j % 5) {
                        (0, 4) => V::Float(n as f64 + 0.5),
                        (0, _) => V::Int(n),
                        (_, 0) => V::Str(format!("{n}px")),
                        (_, 1) => V::Str(format!("{n} apples")),
                        (_, 2) => V::Str(format!("{n}")),
                        (_, 3) => V::Str(format!("{n}a")),
                        _ => V::Str(format!("{n}-06-13")),
                    }
                };
                let base: Vec<V> = (0..l).map(elem).collect();
                for order in 0..3 {
                    for rot in [0, 1, l / 2] {
                        let mut a = base.clone();
                        match order {
                            1 => a.reverse(),
                            2 => a = (0..l).map(|j| base[j * 7 % l].clone()).collect(), // 7 is coprime to every length used
                            _ => {}
                        }
                        a.rotate_left(rot);
                        arrays.push((format!("L={l} kinds={bits:0w$b} order={order} rot={rot}", w = plen), V::Arr(a)));
                    }
                }
            }
        }
    }
    let rad = [filters.len() as u64, arrays.len() as u64, 2];
    let total = product(&rad);
    let nontriv = AtomicU64::new(0);
    let parse_errs = AtomicU64::new(0);
    let build = |i: u64| -> (String, V, String) {
        let d = decode(i, &rad);
        let f = &filters[d[0] as usize].0;
        let a = &arrays[d[1] as usize].1;
        if d[2] == 0 {
            (format!("{{{{ a | {f} }}}}"), V::obj(&[("a", a.clone())]), f.clone())
        } else {
            let V::Arr(items) = a else { unreachable!() };
            let objs: Vec<V> = items.iter().map(|x| V::obj(&[("k", x.clone())])).collect();
            (format!("{{{{ a | {f}: 'k' }}}}"), V::obj(&[("a", V::Arr(objs))]), f.clone())
        }
    };
    let name = format!("long arrays of distinct mixed elements/L in {lens:?}");
    par_range(
        report,
        &name,
        total,
        |i| {
            let (text, data, f) = build(i);
            total_render(report, &format!("filter={f}|long-array"), i, &parser, &text, &data, &data.to_object(), &nontriv, &parse_errs);
        },
        |i| {
            let (t, d, _) = build(i);
            json!({"kind":"render","template":t,"data":d.to_json(),"partials":[]})
        },
    );
    report.nontrivial.fetch_add(nontriv.load(Ordering::Relaxed), Ordering::Relaxed);
    report.family(FamilyStat { name, cases: total, nontrivial: nontriv.load(Ordering::Relaxed), skipped: parse_errs.load(Ordering::Relaxed), note: format!("{} filters x {} arrays (every periodic number/text kind pattern of period <= 4 over distinct 1-3 digit numbers, n.5 floats and texts \"Npx\", \"N apples\", \"N\", \"Na\", \"N-06-13\"; ascending / reversed / stride-7 arrangement x 3 rotations) x {{bare, as objects sorted by property}}", filters.len(), arrays.len()) });
}

pub fn run(tier: Tier) -> i32 {
    let report = Report::new("C02", tier, "exploration");
    report.set_rule("complete products: every registered filter (stdlib + jekyll + shopify + extra, names from reflection) x input x argument vectors of arity 0..3 from the shared value pool (variables, literals, keyword form); every loop/range/cycle/conditional/include/render/counter construct x pool values in every parameter position; generated programs x type-confused data; distinct by construction; non-trivial = the template parsed and rendered to Ok (the rest returned Err, also acceptable); oracle = returns Ok/Err, no panic/hang, bytes are UTF-8, errors carry a message");
    report.assume("range widths above 10^4 are excluded (as the statement says); now/today are not in the pool");
    let full = tier.thorough();
    filter_matrix(&report, full);
    constructs(&report, full);
    confused_programs(&report, full);
    error_paths(&report);
    awkward_strings(&report);
    long_arrays(&report, full);
    long_distinct_arrays(&report, full);
    dates_at_the_ends(&report);
    report.finish()
}
