//! C06 — conditionals render exactly one branch, chosen by Liquid truth and comparison.

use crate::ast::*;
use crate::cfgs::{self, Config, Outcome};
use crate::cmp;
use crate::refl::{self, Stop};
use crate::report::{FamilyStat, Report, Tier};
use crate::run::{decode, par_range, product, seq_count, seq_decode};
use crate::val::V;
use liquid_core::model::ValueViewCmp;
use serde_json::json;
use std::sync::atomic::{AtomicU64, Ordering};

pub fn pool() -> Vec<V> {
    vec![
        V::Nil, V::Bool(true), V::Bool(false), V::Int(0), V::Int(1), V::Int(-1), V::Int(2), V::Int(10),
        V::Float(1.0), V::Float(2.0), V::Float(0.5), V::Float(-1.0),
        // the ends of the integer range next to floats far outside it
        V::Int(i64::MAX), V::Int(i64::MIN), V::Float(1e19), V::Float(-1e19),
        V::s("1"), V::s("10"), V::s("abc"), V::s("ABC"), V::s("a"), V::s(""), V::s(" "), V::s("true"),
        // whitespace-only beyond ASCII (blank, as for Rust's trim and Rails' blank?) and almost-blank
        V::s("\u{a0}\u{2003}"), V::s(" \u{a0}x"),
        V::Arr(vec![]), V::Arr(vec![V::Int(1)]), V::Arr(vec![V::Int(1), V::Int(2)]), V::Arr(vec![V::s("a")]),
        V::Obj(vec![]), V::obj(&[("k", V::Int(1))]), V::obj(&[("a", V::Int(1))]),
        // same size, different keys, and the members a missing key could be mistaken for
        V::obj(&[("k", V::Nil)]), V::obj(&[("a", V::Bool(false))]),
        V::Empty, V::Blank, V::Arr(vec![V::Nil]),
    ]
}

fn model_op(a: &V, op: Op, b: &V) -> Option<bool> {
    let (la, lb) = (a.to_liquid(), b.to_liquid());
    let (ca, cb) = (ValueViewCmp::new(&la), ValueViewCmp::new(&lb));
    Some(match op {
        Op::Eq => ca == cb,
        Op::Ne | Op::Ne2 => ca != cb,
        Op::Lt => ca < cb,
        Op::Gt => ca > cb,
        Op::Le => ca <= cb,
        Op::Ge => ca >= cb,
        Op::Contains => return None,
    })
}

fn atoms(report: &Report) {
    let pool = pool();
    let parser = cfgs::parser(Config::Stdlib);
    let n = pool.len() as u64;
    // radices: a, b, op, form (0 = both variables, 1 = literal lhs, 2 = literal rhs, 3 = both literal), unless
    let rad = [n, n, Op::ALL.len() as u64, 4, 2];
    let total = product(&rad);
    let name = "atoms/op x pair x operand-form x if/unless".to_string();
    let nontriv = AtomicU64::new(0);
    let compared_ref = AtomicU64::new(0);
    let cases = AtomicU64::new(0);
    let build = |i: u64| -> Option<(String, V, &V, Op, &V, bool)> {
        let d = decode(i, &rad);
        let (a, b, op, form, unless) = (&pool[d[0] as usize], &pool[d[1] as usize], Op::ALL[d[2] as usize], d[3], d[4] == 1);
        let ea = if form & 1 == 1 { Expr::Lit(a.clone()) } else { Expr::var("a") };
        let eb = if form & 2 == 2 { Expr::Lit(b.clone()) } else { Expr::var("b") };
        if (form & 1 == 1 && a.literal().is_none()) || (form & 2 == 2 && b.literal().is_none()) {
            return None;
        }
        let prog = vec![Stmt::If {
            unless,
            cond: Cond::Bin(ea, op, eb),
            body: vec![text("T")],
            elsifs: vec![],
            else_: Some(vec![text("F")]),
        }];
        let data = V::obj(&[("a", a.clone()), ("b", b.clone())]);
        Some((print(&prog), data, a, op, b, unless))
    };
    par_range(
        report,
        &name,
        total,
        |i| {
            let Some((textp, data, a, op, b, unless)) = build(i) else { return };
            cases.fetch_add(1, Ordering::Relaxed);
            report.eval();
            let (actual, _) = cfgs::run_case(&parser, &textp, &data.to_object());
            let w = || cmp::witness(&textp, &data, &[]);
            let marker = |truth: bool| if truth != unless { "T" } else { "F" };
            // exactly one marker / error
            match &actual {
                Outcome::Ok(s) if s == "T" || s == "F" => {}
                Outcome::RenderErr(_) if op == Op::Contains => {}
                Outcome::Panic(m) => {
                    report.violation(&format!("C06|atom|panic|{}", crate::report::norm_msg(m)), i, w(), m.clone());
                    return;
                }
                other => {
                    let mut wj = w();
                    wj["actual"] = other.to_json();
                    report.violation(&format!("C06|atom|not-exactly-one-branch|{}", op.print()), i, wj, format!("got {}", other.short()));
                    return;
                }
            }
            // oracle 1: the value model's own comparison API
            if let Some(t) = model_op(a, op, b) {
                nontriv.fetch_add(1, Ordering::Relaxed);
                if actual != Outcome::Ok(marker(t).to_string()) {
                    let mut wj = w();
                    wj["actual"] = actual.to_json();
                    wj["expected"] = json!(marker(t));
                    report.violation(&format!("C06|atom|disagrees-with-value-model|{}", op.print()), i, wj, format!("ValueViewCmp says {t}; template printed {}", actual.short()));
                }
            }
            // oracle 2: independent reference on the uncontroversial cells
            match refl::ref_op(a, op, b) {
                Ok(t) => {
                    compared_ref.fetch_add(1, Ordering::Relaxed);
                    if actual != Outcome::Ok(marker(t).to_string()) {
                        let mut wj = w();
                        wj["actual"] = actual.to_json();
                        wj["expected"] = json!(marker(t));
                        report.violation(&format!("C06|atom|disagrees-with-reference|{}|{}-{}", op.print(), a.kind(), b.kind()), i, wj, format!("reference says {t}; template printed {}", actual.short()));
                    }
                }
                Err(Stop::Unspecified(_)) => report.skip(),
                Err(Stop::Error(_)) => {}
            }
            report.outcome(&(textp.len(), actual.short()));
        },
        |i| build(i).map(|b| cmp::witness(&b.0, &b.1, &[])).unwrap_or(json!(null)),
    );
    // bare truthiness of every value and of an undefined name
    let mut bare = 0;
    for (vi, v) in pool.iter().enumerate() {
        for form in 0..2 {
            if form == 1 && v.literal().is_none() {
                continue;
            }
            for unless in [false, true] {
                let e = if form == 1 { Expr::Lit(v.clone()) } else { Expr::var("a") };
                let prog = vec![Stmt::If { unless, cond: Cond::Truthy(e), body: vec![text("T")], elsifs: vec![], else_: Some(vec![text("F")]) }];
                let data = V::obj(&[("a", v.clone())]);
                let textp = print(&prog);
                report.eval();
                bare += 1;
                let expected = refl::run(&prog, &data);
                let (actual, _) = cfgs::run_case(&parser, &textp, &data.to_object());
                if cmp::check(report, "C06", &format!("bare-truthiness|{}", v.kind()), vi as u64, || cmp::witness(&textp, &data, &[]), &expected, &actual) {
                    nontriv.fetch_add(1, Ordering::Relaxed);
                }
            }
        }
    }
    for unless in [false, true] {
        for path in [Expr::var("undefined_name"), Expr::path("a", &["nope"]), Expr::path("undefined_name", &["x", "y"])] {
            let prog = vec![Stmt::If { unless, cond: Cond::Truthy(path), body: vec![text("T")], elsifs: vec![], else_: Some(vec![text("F")]) }];
            let data = V::obj(&[("a", V::obj(&[("k", V::Int(1))]))]);
            let textp = print(&prog);
            report.eval();
            bare += 1;
            let expected = refl::run(&prog, &data);
            let (actual, _) = cfgs::run_case(&parser, &textp, &data.to_object());
            cmp::check(report, "C06", "bare-truthiness|undefined", 0, || cmp::witness(&textp, &data, &[]), &expected, &actual);
        }
    }
    if let Some(b) = build(total / 3 + 7) {
        report.sample(json!({"family": name, "template": b.0, "data": b.1.to_json()}));
    }
    report.nontrivial.fetch_add(nontriv.load(Ordering::Relaxed), Ordering::Relaxed);
    report.extra("atoms_compared_with_independent_reference", json!(compared_ref.load(Ordering::Relaxed)));
    report.family(FamilyStat {
        name,
        cases: cases.load(Ordering::Relaxed) + bare,
        nontrivial: nontriv.load(Ordering::Relaxed),
        skipped: 0,
        note: format!("pool={} values, 8 operators, literal/variable operand forms, if and unless; bare truthiness cases={bare}", pool.len()),
    });
}

fn chains(report: &Report) {
    let parser = cfgs::parser(Config::Stdlib);
    let name = "branch-chains/if-elsif-else/unless".to_string();
    let mut n = 0u64;
    let mut nontriv = 0u64;
    // if / elsif x 0..3 / else?  with all 2^k assignments; unless / else?
    for arms in 1..=4usize {
        for has_else in [false, true] {
            for unless in [false, true] {
                if unless && arms > 1 {
                    continue;
                }
                for assign in 0..(1u32 << arms) {
                    for falsy_kind in 0..3 {
                        let vals: Vec<(String, V)> = (0..arms)
                            .map(|k| {
                                let t = assign >> k & 1 == 1;
                                let v = if t {
                                    [V::Bool(true), V::Int(0), V::s("")][falsy_kind].clone()
                                } else {
                                    [V::Bool(false), V::Nil, V::Bool(false)][falsy_kind].clone()
                                };
                                (format!("c{k}"), v)
                            })
                            // falsy_kind 2 additionally leaves false conditions undefined
                            .filter(|(_, v)| !(falsy_kind == 2 && *v == V::Bool(false)))
                            .collect();
                        let data = V::Obj(vals);
                        let prog = vec![
                            text("["),
                            Stmt::If {
                                unless,
                                cond: Cond::Truthy(Expr::var("c0")),
                                body: vec![text("B0")],
                                elsifs: (1..arms).map(|k| (Cond::Truthy(Expr::var(&format!("c{k}"))), vec![text(&format!("B{k}"))])).collect(),
                                else_: if has_else { Some(vec![text("EL")]) } else { None },
                            },
                            text("]"),
                        ];
                        let textp = print(&prog);
                        n += 1;
                        report.eval();
                        let expected = refl::run(&prog, &data);
                        let (actual, _) = cfgs::run_case(&parser, &textp, &data.to_object());
                        if cmp::check(report, "C06", "chain", n, || cmp::witness(&textp, &data, &[]), &expected, &actual) {
                            nontriv += 1;
                            report.outcome(&textp);
                        }
                    }
                }
            }
        }
    }
    report.nontrivial.fetch_add(nontriv, Ordering::Relaxed);
    report.family(FamilyStat { name, cases: n, nontrivial: nontriv, skipped: 0, note: "1..4 arms x else? x all truth assignments x three encodings of true/false (bools; 0/nil; \"\"/undefined)".into() });
}

fn logic(report: &Report) {
    let parser = cfgs::parser(Config::Stdlib);
    let name = "and-or-chains".to_string();
    let mut n = 0u64;
    let var = |k: usize| Cond::Truthy(Expr::var(&format!("c{k}")));
    let mut shapes: Vec<(Cond, usize)> = Vec::new();
    for len in 2..=4usize {
        // homogeneous chains (left-nested; associativity is irrelevant for and / or alone)
        let mut a = var(0);
        let mut o = var(0);
        for k in 1..len {
            a = Cond::And(Box::new(a), Box::new(var(k)));
            o = Cond::Or(Box::new(o), Box::new(var(k)));
        }
        shapes.push((a, len));
        shapes.push((o, len));
    }
    // x or y and z  ==  x or (y and z)
    shapes.push((Cond::Or(Box::new(var(0)), Box::new(Cond::And(Box::new(var(1)), Box::new(var(2))))), 3));
    // with comparison atoms
    let cmp_atom = |k: usize| Cond::Bin(Expr::var(&format!("c{k}")), Op::Eq, Expr::Lit(V::Bool(true)));
    shapes.push((Cond::Or(Box::new(cmp_atom(0)), Box::new(Cond::And(Box::new(cmp_atom(1)), Box::new(cmp_atom(2))))), 3));
    shapes.push((Cond::And(Box::new(cmp_atom(0)), Box::new(cmp_atom(1))), 2));
    shapes.push((Cond::Or(Box::new(cmp_atom(0)), Box::new(cmp_atom(1))), 2));
    let mut nontriv = 0;
    for (shape, k) in &shapes {
        for unless in [false, true] {
            for assign in 0..(1u32 << k) {
                let data = V::Obj((0..*k).map(|j| (format!("c{j}"), V::Bool(assign >> j & 1 == 1))).collect());
                let prog = vec![Stmt::If { unless, cond: shape.clone(), body: vec![text("T")], elsifs: vec![], else_: Some(vec![text("F")]) }];
                let textp = print(&prog);
                n += 1;
                report.eval();
                let expected = refl::run(&prog, &data);
                let (actual, _) = cfgs::run_case(&parser, &textp, &data.to_object());
                if cmp::check(report, "C06", "logic", n, || cmp::witness(&textp, &data, &[]), &expected, &actual) {
                    nontriv += 1;
                }
            }
        }
    }
    report.nontrivial.fetch_add(nontriv, Ordering::Relaxed);
    report.family(FamilyStat { name, cases: n, nontrivial: nontriv, skipped: 0, note: "homogeneous and/or chains of length 2..4 and `x or y and z`, truthiness and comparison atoms, all assignments, if and unless".into() });
}

fn cases(report: &Report, max_arms: u32) {
    let parser = cfgs::parser(Config::Stdlib);
    let vals = [V::Int(1), V::Int(2), V::s("a"), V::s("1"), V::Nil];
    // arm alphabet: single value (5), pairs with ',' (25) and with 'or' (25)
    let arm_count = 5 + 25 + 25;
    let arm = |k: u64| -> (Vec<Expr>, bool) {
        if k < 5 {
            (vec![Expr::Lit(vals[k as usize].clone())], false)
        } else {
            let k2 = k - 5;
            let or = k2 >= 25;
            let k3 = k2 % 25;
            (vec![Expr::Lit(vals[(k3 / 5) as usize].clone()), Expr::Lit(vals[(k3 % 5) as usize].clone())], or)
        }
    };
    let seqs = seq_count(arm_count, max_arms) - 1; // at least one arm
    let total = seqs * 5 * 2 * 2;
    let name = format!("case-when/arms<={max_arms}");
    let nontriv = AtomicU64::new(0);
    let build = |i: u64| -> (Vec<Stmt>, V) {
        let d = decode(i, &[seqs, 5, 2, 2]);
        let arms = seq_decode(d[0] + 1, arm_count, max_arms);
        let target = &vals[d[1] as usize];
        let has_else = d[2] == 1;
        let via_var = d[3] == 1;
        let whens: Vec<(Vec<Expr>, bool, Vec<Stmt>)> = arms.iter().enumerate().map(|(j, a)| {
            let (vs, or) = arm(*a);
            (vs, or, vec![text(&format!("W{j}"))])
        }).collect();
        let prog = vec![
            text("["),
            Stmt::Case { target: if via_var { Expr::var("t") } else { Expr::Lit(target.clone()) }, whens, else_: if has_else { Some(vec![text("EL")]) } else { None } },
            text("]"),
        ];
        (prog, V::obj(&[("t", target.clone())]))
    };
    par_range(
        report,
        &name,
        total,
        |i| {
            let (prog, data) = build(i);
            let textp = print(&prog);
            report.eval();
            let expected = refl::run(&prog, &data);
            let (actual, _) = cfgs::run_case(&parser, &textp, &data.to_object());
            if cmp::check(report, "C06", "case", i, || cmp::witness(&textp, &data, &[]), &expected, &actual) {
                nontriv.fetch_add(1, Ordering::Relaxed);
                if i % 97 == 0 {
                    report.outcome(&actual.short());
                }
            }
        },
        |i| {
            let (p, d) = build(i);
            cmp::witness(&print(&p), &d, &[])
        },
    );
    let (p, d) = build(total - 5);
    report.sample(json!({"family": name, "template": print(&p), "data": d.to_json(), "expected": format!("{:?}", refl::run(&p, &d))}));
    report.nontrivial.fetch_add(nontriv.load(Ordering::Relaxed), Ordering::Relaxed);
    report.family(FamilyStat { name, cases: total, nontrivial: nontriv.load(Ordering::Relaxed), skipped: 0, note: "arms of 1-2 values (comma and `or` lists, duplicates, overlaps) x 5 targets x else? x literal/variable target".into() });
}


/// Re-execution: the same parsed conditional is executed again with other operands — across
/// renders of one template object (every ordered pair of data objects) and inside a loop body.
/// "The first arm whose condition holds" must not depend on which arm the block took before.
fn reexecution(report: &Report, max_arms: u32) {
    let parser = cfgs::parser(Config::Stdlib);
    let vals = [V::Int(1), V::Int(2), V::s("a"), V::s("1"), V::Nil];
    let arm_count = 5 + 25 + 25;
    let arm = |k: u64| -> (Vec<Expr>, bool) {
        if k < 5 {
            (vec![Expr::Lit(vals[k as usize].clone())], false)
        } else {
            let k2 = k - 5;
            let k3 = k2 % 25;
            (vec![Expr::Lit(vals[(k3 / 5) as usize].clone()), Expr::Lit(vals[(k3 % 5) as usize].clone())], k2 >= 25)
        }
    };
    let seqs = seq_count(arm_count, max_arms) - 1;
    let total = seqs * 2 * 2;
    let name = format!("re-execution/case arms<={max_arms}");
    let compared = AtomicU64::new(0);
    // data for the across-render form: the five targets; for the in-loop form: every sequence of 2..3 targets
    let targets: Vec<V> = vals.iter().map(|t| V::obj(&[("t", t.clone())])).collect();
    let mut lists: Vec<V> = Vec::new();
    for a in &vals {
        for b in &vals {
            lists.push(V::obj(&[("ts", V::Arr(vec![a.clone(), b.clone()]))]));
            for c in &vals {
                lists.push(V::obj(&[("ts", V::Arr(vec![a.clone(), b.clone(), c.clone()]))]));
            }
        }
    }
    let build = |i: u64| -> (Vec<Stmt>, bool) {
        let d = decode(i, &[seqs, 2, 2]);
        let arms = seq_decode(d[0] + 1, arm_count, max_arms);
        let whens: Vec<(Vec<Expr>, bool, Vec<Stmt>)> = arms.iter().enumerate().map(|(j, a)| {
            let (vs, or) = arm(*a);
            (vs, or, vec![text(&format!("W{j}"))])
        }).collect();
        let case = Stmt::Case { target: Expr::var("t"), whens, else_: if d[1] == 1 { Some(vec![text("EL")]) } else { None } };
        let in_loop = d[2] == 1;
        let prog = if in_loop { vec![for_("t", Src::Expr(Expr::var("ts")), vec![text("["), case, text("]")])] } else { vec![text("["), case, text("]")] };
        (prog, in_loop)
    };
    par_range(
        report,
        &name,
        total,
        |i| {
            let (prog, in_loop) = build(i);
            let textp = print(&prog);
            if in_loop {
                // one render per list: the block runs 2-3 times inside it
                let Ok(Ok(tmpl)) = cfgs::parse_guarded(&parser, &textp) else {
                    report.violation("C06|reexec|well-formed-program-rejected", i, cmp::witness(&textp, &lists[0], &[]), "does not parse".into());
                    return;
                };
                let mut prev: Option<&V> = None;
                for d in &lists {
                    report.eval();
                    let expected = refl::run(&prog, d);
                    let actual = match cfgs::render_guarded(&tmpl, &d.to_object()) {
                        Ok(Ok(s)) => cfgs::Outcome::Ok(s),
                        Ok(Err(e)) => cfgs::Outcome::RenderErr(e),
                        Err(pi) => cfgs::Outcome::Panic(pi.describe()),
                    };
                    // the template object has been rendered with `prev` before: record the two-step history
                    let w = || {
                        let mut j = cmp::witness(&textp, d, &[]);
                        j["kind"] = json!("reexec");
                        j["history"] = json!(prev.iter().map(|p| p.to_json()).chain(std::iter::once(d.to_json())).collect::<Vec<_>>());
                        j
                    };
                    if cmp::check(report, "C06", "reexec-in-loop", i, w, &expected, &actual) {
                        compared.fetch_add(1, Ordering::Relaxed);
                    }
                    prev = Some(d);
                }
            } else {
                let expected: Vec<_> = targets.iter().map(|d| refl::run(&prog, d)).collect();
                compared.fetch_add(cmp::check_reexec(report, "C06", "reexec", i, &parser, &textp, &[], &targets, &expected), Ordering::Relaxed);
            }
        },
        |i| cmp::witness(&print(&build(i).0), &targets[0], &[]),
    );
    let c = compared.load(Ordering::Relaxed);
    report.nontrivial.fetch_add(c, Ordering::Relaxed);
    report.family(FamilyStat { name, cases: total, nontrivial: c, skipped: 0, note: "every arm sequence x else? ; across renders: one parsed template, every ordered pair of the 5 targets; in a loop body: every target list of length 2-3".into() });

    // if / elsif chains and and/or shapes over variables: one parsed template, every ordered pair of assignments
    let name = "re-execution/if-elsif-else and and/or shapes".to_string();
    let mut n = 0u64;
    let mut cmpd = 0u64;
    let mut progs: Vec<(Vec<Stmt>, usize)> = Vec::new();
    for arms in 1..=3usize {
        for has_else in [false, true] {
            progs.push((
                vec![Stmt::If {
                    unless: false,
                    cond: Cond::Truthy(Expr::var("c0")),
                    body: vec![text("B0")],
                    elsifs: (1..arms).map(|k| (Cond::Truthy(Expr::var(&format!("c{k}"))), vec![text(&format!("B{k}"))])).collect(),
                    else_: if has_else { Some(vec![text("EL")]) } else { None },
                }],
                arms,
            ));
        }
    }
    let v = |k: usize| Cond::Truthy(Expr::var(&format!("c{k}")));
    for (shape, k) in [
        (Cond::Or(Box::new(v(0)), Box::new(Cond::And(Box::new(v(1)), Box::new(v(2))))), 3usize),
        (Cond::And(Box::new(v(0)), Box::new(v(1))), 2),
        (Cond::Or(Box::new(v(0)), Box::new(v(1))), 2),
        (Cond::Bin(Expr::var("c0"), Op::Eq, Expr::var("c1")), 2),
    ] {
        for unless in [false, true] {
            progs.push((vec![Stmt::If { unless, cond: shape.clone(), body: vec![text("T")], elsifs: vec![], else_: Some(vec![text("F")]) }], k));
        }
    }
    for (pi, (prog, k)) in progs.iter().enumerate() {
        let datas: Vec<V> = (0..(1u32 << k)).map(|a| V::Obj((0..*k).map(|j| (format!("c{j}"), V::Bool(a >> j & 1 == 1))).collect())).collect();
        let expected: Vec<_> = datas.iter().map(|d| refl::run(prog, d)).collect();
        n += 1;
        cmpd += cmp::check_reexec(report, "C06", "reexec", pi as u64, &parser, &print(prog), &[], &datas, &expected);
    }
    report.nontrivial.fetch_add(cmpd, Ordering::Relaxed);
    report.family(FamilyStat { name, cases: n, nontrivial: cmpd, skipped: 0, note: "one parsed template per shape; every ordered pair of truth assignments rendered in turn".into() });
}

pub fn run(tier: Tier) -> i32 {
    let report = Report::new("C06", tier, "exploration");
    report.set_rule("complete products: operators x ordered value pairs x operand forms x if/unless; branch chains with all truth assignments; case/when arm sequences; and/or shapes with all assignments; distinct by construction; non-trivial = the case was compared against an oracle (value-model differential and/or independent reference), i.e. not skipped as unspecified");
    report.assume("atoms outside the reference's uncontroversial cells are decided by the value model's own ValueViewCmp API alone (the statement says 'agree with the value model')");
    atoms(&report);
    chains(&report);
    logic(&report);
    cases(&report, if tier.thorough() { 3 } else { 2 });
    reexecution(&report, 2);
    cases_long_lists(&report);
    cases_loose_lists(&report);
    if tier.thorough() {
        // 4 single-valued arms
        cases_single4(&report);
    }
    report.finish()
}


/// when-lists over literals that are *loosely* related without being the same (true and any truthy value,
/// nil and false, "" and empty / blank, 1 and 1.0): every value of a list counts, whatever stands before it.
fn cases_loose_lists(report: &Report) {
    let parser = cfgs::parser(Config::Stdlib);
    let lits = [V::Bool(true), V::Bool(false), V::Nil, V::s("a"), V::s(""), V::s(" "), V::Int(1), V::Float(1.0), V::Empty, V::Blank];
    let targets = [V::s("b"), V::s("a"), V::Int(2), V::Int(1), V::Float(1.0), V::s(""), V::s("  "), V::Nil, V::Bool(true), V::Bool(false), V::Arr(vec![]), V::Arr(vec![V::Int(1)])];
    let k = lits.len() as u64;
    let mut n = 0u64;
    for len in [2usize, 3] {
        for li in 0..k.pow(len as u32) {
            let mut x = li;
            let list: Vec<Expr> = (0..len).map(|_| { let e = Expr::Lit(lits[(x % k) as usize].clone()); x /= k; e }).collect();
            for or in [false, true] {
                for target in &targets {
                    let whens = vec![(list.clone(), or, vec![text("HIT")])];
                    let prog = vec![text("["), Stmt::Case { target: Expr::var("t"), whens, else_: Some(vec![text("EL")]) }, text("]")];
                    let data = V::obj(&[("t", target.clone())]);
                    let textp = print(&prog);
                    report.eval();
                    n += 1;
                    let expected = refl::run(&prog, &data);
                    let (actual, _) = cfgs::run_case(&parser, &textp, &data.to_object());
                    cmp::check(report, "C06", "case-loose-list", n, || cmp::witness(&textp, &data, &[]), &expected, &actual);
                }
            }
        }
    }
    report.family(FamilyStat { name: "case-when/lists of loosely related literals".into(), cases: n, nontrivial: n, skipped: 0, note: "every 2- and 3-list over {true, false, nil, 'a', '', ' ', 1, 1.0, empty, blank}, comma and `or` form, x 12 targets".into() });
    report.nontrivial.fetch_add(n, Ordering::Relaxed);
}

/// when-lists of three and four values (comma and `or` forms), alone and after a non-matching arm.
fn cases_long_lists(report: &Report) {
    let parser = cfgs::parser(Config::Stdlib);
    let vals = [V::Int(1), V::Int(2), V::s("a"), V::s("1"), V::Nil];
    let mut n = 0u64;
    for len in [3usize, 4] {
        let pool: &[V] = if len == 3 { &vals } else { &vals[..3] };
        let k = pool.len() as u64;
        for li in 0..k.pow(len as u32) {
            let mut x = li;
            let list: Vec<Expr> = (0..len).map(|_| { let e = Expr::Lit(pool[(x % k) as usize].clone()); x /= k; e }).collect();
            for or in [false, true] {
                for target in &vals {
                    for lead in [false, true] {
                        let mut whens = Vec::new();
                        if lead {
                            whens.push((vec![Expr::s("never")], false, vec![text("LEAD")]));
                        }
                        whens.push((list.clone(), or, vec![text("HIT")]));
                        let prog = vec![text("["), Stmt::Case { target: Expr::var("t"), whens, else_: Some(vec![text("EL")]) }, text("]")];
                        let data = V::obj(&[("t", target.clone())]);
                        let textp = print(&prog);
                        report.eval();
                        n += 1;
                        let expected = refl::run(&prog, &data);
                        let (actual, _) = cfgs::run_case(&parser, &textp, &data.to_object());
                        cmp::check(report, "C06", "case-long-list", n, || cmp::witness(&textp, &data, &[]), &expected, &actual);
                    }
                }
            }
        }
    }
    report.family(FamilyStat { name: "case-when/lists of 3 and 4 values".into(), cases: n, nontrivial: n, skipped: 0, note: "every 3-list over 5 values and 4-list over 3 values, comma and `or` form, x 5 targets, alone and after a non-matching arm".into() });
    report.nontrivial.fetch_add(n, Ordering::Relaxed);
}

fn cases_single4(report: &Report) {
    let parser = cfgs::parser(Config::Stdlib);
    let vals = [V::Int(1), V::Int(2), V::s("a"), V::s("1"), V::Nil];
    let mut n = 0;
    for i in 0..(5u64.pow(4) * 5 * 2) {
        let d = decode(i, &[5, 5, 5, 5, 5, 2]);
        let whens = (0..4).map(|j| (vec![Expr::Lit(vals[d[j] as usize].clone())], false, vec![text(&format!("W{j}"))])).collect();
        let prog = vec![Stmt::Case { target: Expr::var("t"), whens, else_: if d[5] == 1 { Some(vec![text("EL")]) } else { None } }];
        let data = V::obj(&[("t", vals[d[4] as usize].clone())]);
        let textp = print(&prog);
        report.eval();
        n += 1;
        let expected = refl::run(&prog, &data);
        let (actual, _) = cfgs::run_case(&parser, &textp, &data.to_object());
        cmp::check(report, "C06", "case", i, || cmp::witness(&textp, &data, &[]), &expected, &actual);
    }
    report.family(FamilyStat { name: "case-when/4-single-valued-arms".into(), cases: n, nontrivial: n, skipped: 0, note: String::new() });
    report.nontrivial.fetch_add(n, Ordering::Relaxed);
}
