pub mod c01;
