//! Harness-side value type (independent of liquid's `Value`), with conversion
//! to liquid values, to JSON (for evidence / replay files) and to literal
//! template syntax where one exists.

use liquid_core::model::{Date, DateTime, KString, Object, State, Value};
use serde_json::{json, Value as J};

#[derive(Clone, Debug, PartialEq)]
pub enum V {
    Nil,
    Bool(bool),
    Int(i64),
    Float(f64),
    Str(String),
    /// year, month, day
    Date(i32, u8, u8),
    /// text in the crate's own display format `YYYY-MM-DD HH:MM:SS +hhmm`
    DateTime(String),
    Arr(Vec<V>),
    /// ordered list of pairs (insertion order is irrelevant to liquid's hash map)
    Obj(Vec<(String, V)>),
    Empty,
    Blank,
}

impl V {
    pub fn s(x: &str) -> V {
        V::Str(x.to_string())
    }
    pub fn obj(pairs: &[(&str, V)]) -> V {
        V::Obj(pairs.iter().map(|(k, v)| (k.to_string(), v.clone())).collect())
    }

    pub fn to_liquid(&self) -> Value {
        match self {
            V::Nil => Value::Nil,
            V::Bool(b) => Value::scalar(*b),
            V::Int(i) => Value::scalar(*i),
            V::Float(f) => Value::scalar(*f),
            V::Str(s) => Value::scalar(s.clone()),
            V::Date(y, m, d) => Value::scalar(Date::from_ymd(*y, *m, *d)),
            V::DateTime(s) => Value::scalar(
                DateTime::from_str(s).unwrap_or_else(|| panic!("harness: bad datetime {s}")),
            ),
            V::Arr(a) => Value::Array(a.iter().map(|v| v.to_liquid()).collect()),
            V::Obj(o) => Value::Object(
                o.iter()
                    .map(|(k, v)| (KString::from_ref(k), v.to_liquid()))
                    .collect(),
            ),
            V::Empty => Value::State(State::Empty),
            V::Blank => Value::State(State::Blank),
        }
    }

    /// Object for use as render globals. Panics if not an object.
    pub fn to_object(&self) -> Object {
        match self.to_liquid() {
            Value::Object(o) => o,
            _ => panic!("harness: globals must be an object"),
        }
    }

    pub fn to_json(&self) -> J {
        match self {
            V::Nil => J::Null,
            V::Bool(b) => json!(b),
            V::Int(i) => json!(i),
            V::Float(f) => {
                if f.is_finite() {
                    json!({"float": f})
                } else {
                    json!({"float": f.to_string()})
                }
            }
            V::Str(s) => json!(s),
            V::Date(y, m, d) => json!({"date": format!("{y:04}-{m:02}-{d:02}")}),
            V::DateTime(s) => json!({"datetime": s}),
            V::Arr(a) => J::Array(a.iter().map(|v| v.to_json()).collect()),
            V::Obj(o) => {
                let mut m = serde_json::Map::new();
                for (k, v) in o {
                    m.insert(k.clone(), v.to_json());
                }
                J::Object(m)
            }
            V::Empty => json!({"state": "empty"}),
            V::Blank => json!({"state": "blank"}),
        }
    }

    pub fn from_json(j: &J) -> V {
        match j {
            J::Null => V::Nil,
            J::Bool(b) => V::Bool(*b),
            J::Number(n) => {
                if let Some(i) = n.as_i64() {
                    V::Int(i)
                } else {
                    V::Float(n.as_f64().unwrap())
                }
            }
            J::String(s) => V::Str(s.clone()),
            J::Array(a) => V::Arr(a.iter().map(V::from_json).collect()),
            J::Object(m) => {
                if m.len() == 1 {
                    if let Some(f) = m.get("float") {
                        return match f {
                            J::String(s) => V::Float(s.parse::<f64>().unwrap_or(f64::NAN)),
                            other => V::Float(other.as_f64().unwrap()),
                        };
                    }
                    if let Some(J::String(s)) = m.get("date") {
                        let p: Vec<&str> = s.split('-').collect();
                        if p.len() == 3 {
                            return V::Date(
                                p[0].parse().unwrap(),
                                p[1].parse().unwrap(),
                                p[2].parse().unwrap(),
                            );
                        }
                    }
                    if let Some(J::String(s)) = m.get("datetime") {
                        return V::DateTime(s.clone());
                    }
                    if let Some(J::String(s)) = m.get("state") {
                        return if s == "empty" { V::Empty } else { V::Blank };
                    }
                }
                V::Obj(m.iter().map(|(k, v)| (k.clone(), V::from_json(v))).collect())
            }
        }
    }

    /// Literal template syntax, when the grammar has one for this value.
    pub fn literal(&self) -> Option<String> {
        match self {
            V::Nil => Some("nil".into()),
            V::Bool(b) => Some(b.to_string()),
            V::Int(i) => Some(i.to_string()),
            V::Float(f) => {
                if f.is_finite() && f.abs() < 1e15 {
                    let s = format!("{f:?}");
                    if s.contains('e') || !s.contains('.') {
                        None
                    } else {
                        Some(s)
                    }
                } else {
                    None
                }
            }
            V::Str(s) => {
                if !s.contains('"') {
                    Some(format!("\"{s}\""))
                } else if !s.contains('\'') {
                    Some(format!("'{s}'"))
                } else {
                    None
                }
            }
            V::Empty => Some("empty".into()),
            V::Blank => Some("blank".into()),
            _ => None,
        }
    }

    pub fn kind(&self) -> &'static str {
        match self {
            V::Nil => "nil",
            V::Bool(_) => "bool",
            V::Int(_) => "int",
            V::Float(_) => "float",
            V::Str(_) => "str",
            V::Date(..) => "date",
            V::DateTime(_) => "datetime",
            V::Arr(_) => "array",
            V::Obj(_) => "object",
            V::Empty => "empty",
            V::Blank => "blank",
        }
    }

    pub fn is_scalar(&self) -> bool {
        matches!(
            self,
            V::Bool(_) | V::Int(_) | V::Float(_) | V::Str(_) | V::Date(..) | V::DateTime(_)
        )
    }
}

/// The shared value pool of DESIGN §4.1 (full) and its quick subset.
pub fn pool(full: bool) -> Vec<V> {
    let mut v = vec![
        V::Nil,
        V::Bool(true),
        V::Bool(false),
        V::Int(0),
        V::Int(1),
        V::Int(-1),
        V::Int(3),
        V::Int(i64::MAX),
        V::Int(i64::MIN),
        V::Float(0.5),
        V::Float(-2.5),
        V::s(""),
        V::s(" "),
        V::s("abc def"),
        V::s("é👍e\u{301}"),
        V::s("10"),
        V::s("0"),
        V::s("%é"),
        V::Arr(vec![V::Int(1), V::s("a"), V::Nil]),
        V::Arr(mixed_array(25)),
        V::obj(&[("k", V::Int(1))]),
        V::DateTime("2020-02-29 23:59:59 +0530".into()),
        V::Arr(vec![
            V::obj(&[("p", V::Int(1))]),
            V::obj(&[("p", V::Nil)]),
            V::obj(&[("q", V::Int(2))]),
        ]),
        V::Int(1 << 31),
        // the empty containers: every index is out of range, every window is empty
        V::Arr(vec![]),
        V::Obj(vec![]),
    ];
    if full {
        v.extend(vec![
            V::Int(2),
            V::Int(7),
            V::Int(10),
            V::Int(-(1 << 31)),
            V::Int(1 << 53),
            V::Int(1 << 62),
            V::Int(i64::MAX - 1),
            V::Int(i64::MIN + 1),
            V::Float(0.0),
            V::Float(-0.0),
            V::Float(1.5),
            V::Float(2.5),
            V::Float(-0.5),
            V::Float(1e18),
            V::Float(1e19),
            V::Float(f64::INFINITY),
            V::Float(f64::NEG_INFINITY),
            V::Float(f64::NAN),
            V::s("\n\t"),
            V::s("a"),
            V::s("é"),
            V::s("e\u{301}"),
            V::s("👍"),
            V::s("-3"),
            V::s("2.5"),
            V::s("1e3"),
            V::s("true"),
            V::s("nil"),
            V::s("2020-02-29"),
            V::s("2020-02-29 23:59:59 +0530"),
            V::s("<a&'\">"),
            V::s("%FF"),
            V::s("%"),
            V::Date(2020, 2, 29),
            V::Arr(vec![V::Int(1)]),
            V::Arr((0..40).map(V::Int).collect()),
            V::Arr(vec![
                V::Arr(vec![V::Int(1), V::Int(2)]),
                V::Arr(vec![V::Int(3)]),
            ]),
            V::obj(&[("size", V::Int(7)), ("first", V::s("f"))]),
            V::Empty,
            V::Blank,
        ]);
    }
    v
}

/// `[0,"a",1]` repeated: a periodic array of mutually incomparable elements.
pub fn mixed_array(n: usize) -> Vec<V> {
    (0..n)
        .map(|i| match i % 3 {
            0 => V::Int(0),
            1 => V::s("a"),
            _ => V::Int(1),
        })
        .collect()
}
