//! Comparison of an implementation outcome with the reference prediction.

use crate::cfgs::Outcome;
use crate::refl::{Stop, R};
use crate::report::Report;
use crate::val::V;
use serde_json::{json, Value as J};

pub fn witness(text: &str, data: &V, partials: &[(String, String)]) -> J {
    json!({
        "kind": "render",
        "template": text,
        "data": data.to_json(),
        "partials": partials.iter().map(|(n, t)| json!([n, t])).collect::<Vec<_>>(),
    })
}

/// Returns true when the case was compared (not skipped).
pub fn check(
    report: &Report,
    prop: &str,
    class: &str,
    idx: u64,
    w: impl Fn() -> J,
    expected: &R<String>,
    actual: &Outcome,
) -> bool {
    if let Outcome::Panic(m) = actual {
        let mut wj = w();
        wj["expected"] = json!(format!("{expected:?}"));
        report.violation(&format!("{prop}|{class}|panic|{}", crate::report::norm_msg(m)), idx, wj, m.clone());
        return true;
    }
    let fail = |kind: &str, detail: String| {
        let mut wj = w();
        wj["expected"] = json!(match expected {
            Ok(s) => format!("Ok({s:?})"),
            Err(e) => format!("{e:?}"),
        });
        wj["actual"] = actual.to_json();
        report.violation(&format!("{prop}|{class}|{kind}"), idx, wj, detail);
    };
    match expected {
        Err(Stop::Unspecified(_)) => {
            report.skip();
            false
        }
        Err(Stop::Error(m)) => {
            match actual {
                Outcome::RenderErr(_) => {}
                Outcome::ParseErr(e) => fail("well-formed-program-rejected", format!("parse error: {}", crate::cfgs::first_line(e))),
                Outcome::Ok(s) => fail("expected-error-got-output", format!("reference predicts an error ({m}); rendered {s:?}")),
                _ => fail("corrupt", actual.short()),
            }
            true
        }
        Ok(exp) => {
            match actual {
                Outcome::Ok(s) if s == exp => {}
                Outcome::Ok(s) => fail("output-differs", format!("expected {exp:?} got {s:?}")),
                Outcome::RenderErr(e) => fail("expected-output-got-error", format!("expected {exp:?} got error {}", crate::cfgs::first_line(e))),
                Outcome::ParseErr(e) => fail("well-formed-program-rejected", format!("parse error: {}", crate::cfgs::first_line(e))),
                _ => fail("corrupt", actual.short()),
            }
            true
        }
    }
}

/// Re-execution oracle.  One *parsed* template is rendered along a sequence of data objects that
/// contains every ordered pair (a, b) — `a` then `b` on the same template object — and every
/// render is compared with the reference prediction for its own data.  Anything a renderable
/// remembers from its previous execution (a hint, a cache, a buffer) shows up as a result that
/// depends on what was rendered before.  Returns the number of renders compared.
#[allow(clippy::too_many_arguments)]
pub fn check_reexec(
    report: &Report,
    prop: &str,
    class: &str,
    idx: u64,
    parser: &liquid::Parser,
    text: &str,
    partials: &[(String, String)],
    datas: &[V],
    expected: &[R<String>],
) -> u64 {
    let tmpl = match crate::cfgs::parse_guarded(parser, text) {
        Ok(Ok(t)) => t,
        Ok(Err(e)) => {
            report.violation(&format!("{prop}|{class}|well-formed-program-rejected"), idx, witness(text, &datas[0], partials), format!("parse error: {}", crate::cfgs::first_line(&e)));
            return 0;
        }
        Err(pi) => {
            report.violation(&format!("{prop}|{class}|{}", pi.sig()), idx, witness(text, &datas[0], partials), pi.describe());
            return 0;
        }
    };
    let globals: Vec<liquid::Object> = datas.iter().map(|d| d.to_object()).collect();
    let render = |i: usize| -> Outcome {
        match crate::cfgs::render_guarded(&tmpl, &globals[i]) {
            Ok(Ok(s)) => Outcome::Ok(s),
            Ok(Err(e)) => Outcome::RenderErr(e),
            Err(pi) => Outcome::Panic(pi.describe()),
        }
    };
    let mut n = 0;
    for a in 0..datas.len() {
        for b in 0..datas.len() {
            for (step, cur) in [(0usize, a), (1, b)] {
                report.eval();
                let actual = render(cur);
                let w = || {
                    let mut j = witness(text, &datas[cur], partials);
                    j["kind"] = json!("reexec");
                    j["history"] = json!(if step == 0 { vec![datas[a].to_json()] } else { vec![datas[a].to_json(), datas[b].to_json()] });
                    j["note"] = json!("the same parsed template is rendered for each entry of `history` in turn; the last render is the one compared");
                    j
                };
                if check(report, prop, class, idx, w, &expected[cur], &actual) {
                    n += 1;
                }
            }
        }
    }
    n
}
