//! Comparison of an implementation outcome with the reference prediction.

use crate::cfgs::Outcome;
use crate::refl::{Stop, R};
use crate::report::Report;
use crate::val::V;
use serde_json::{json, Value as J};

pub fn witness(text: &str, data: &V, partials: &[(String, String)]) -> J {
    json!({
        "kind": "render",
        "template": text,
        "data": data.to_json(),
        "partials": partials.iter().map(|(n, t)| json!([n, t])).collect::<Vec<_>>(),
    })
}

/// Returns true when the case was compared (not skipped).
pub fn check(
    report: &Report,
    prop: &str,
    class: &str,
    idx: u64,
    w: impl Fn() -> J,
    expected: &R<String>,
    actual: &Outcome,
) -> bool {
    if let Outcome::Panic(m) = actual {
        let mut wj = w();
        wj["expected"] = json!(format!("{expected:?}"));
        report.violation(&format!("{prop}|{class}|panic|{}", crate::report::norm_msg(m)), idx, wj, m.clone());
        return true;
    }
    let fail = |kind: &str, detail: String| {
        let mut wj = w();
        wj["expected"] = json!(match expected {
            Ok(s) => format!("Ok({s:?})"),
            Err(e) => format!("{e:?}"),
        });
        wj["actual"] = actual.to_json();
        report.violation(&format!("{prop}|{class}|{kind}"), idx, wj, detail);
    };
    match expected {
        Err(Stop::Unspecified(_)) => {
            report.skip();
            false
        }
        Err(Stop::Error(m)) => {
            match actual {
                Outcome::RenderErr(_) => {}
                Outcome::ParseErr(e) => fail("well-formed-program-rejected", format!("parse error: {}", crate::cfgs::first_line(e))),
                Outcome::Ok(s) => fail("expected-error-got-output", format!("reference predicts an error ({m}); rendered {s:?}")),
                _ => fail("corrupt", actual.short()),
            }
            true
        }
        Ok(exp) => {
            match actual {
                Outcome::Ok(s) if s == exp => {}
                Outcome::Ok(s) => fail("output-differs", format!("expected {exp:?} got {s:?}")),
                Outcome::RenderErr(e) => fail("expected-output-got-error", format!("expected {exp:?} got error {}", crate::cfgs::first_line(e))),
                Outcome::ParseErr(e) => fail("well-formed-program-rejected", format!("parse error: {}", crate::cfgs::first_line(e))),
                _ => fail("corrupt", actual.short()),
            }
            true
        }
    }
}
