//! Parser configurations, the `dump` filter, and the basic "parse + render one
//! case under a panic guard" primitive shared by all checks.

use crate::run::{guard, PanicInfo};
use crate::val::V;
use liquid_core::{Display_filter, Filter, FilterReflection, ParseFilter};
use liquid_core::{Result as LResult, Runtime, Value, ValueView};

#[derive(Copy, Clone, Debug, PartialEq, Eq, Hash)]
pub enum Config {
    Stdlib,
    Full,
    Empty,
}

impl Config {
    pub const ALL: [Config; 3] = [Config::Stdlib, Config::Full, Config::Empty];
    pub fn name(self) -> &'static str {
        match self {
            Config::Stdlib => "stdlib",
            Config::Full => "stdlib+jekyll+shopify+extra",
            Config::Empty => "empty",
        }
    }
}

pub type Partials = Vec<(String, String)>;

#[derive(Copy, Clone, Debug, PartialEq, Eq, Hash)]
pub enum Policy {
    /// ParserBuilder without `.partials()`: no store at all
    None,
    Eager,
    Lazy,
    OnDemand,
}

fn source(partials: &Partials) -> liquid::partials::InMemorySource {
    let mut s = liquid::partials::InMemorySource::new();
    for (n, t) in partials {
        s.add(n.clone(), t.clone());
    }
    s
}

fn add_full<P: liquid::partials::PartialCompiler>(
    b: liquid::ParserBuilder<P>,
) -> liquid::ParserBuilder<P> {
    b.filter(liquid_lib::jekyll::Slugify)
        .filter(liquid_lib::jekyll::Push)
        .filter(liquid_lib::jekyll::Pop)
        .filter(liquid_lib::jekyll::Unshift)
        .filter(liquid_lib::jekyll::Shift)
        .filter(liquid_lib::jekyll::ArrayToSentenceString)
        .filter(liquid_lib::shopify::Pluralize)
        .filter(liquid_lib::extra::DateInTz)
}

fn base(config: Config) -> liquid::ParserBuilder {
    let b = match config {
        Config::Stdlib => liquid::ParserBuilder::with_stdlib(),
        Config::Full => add_full(liquid::ParserBuilder::with_stdlib()),
        Config::Empty => liquid::ParserBuilder::new(),
    };
    // harness filters (no effect on the language being checked)
    b.filter(Dump)
}

/// Builds a parser; `Err` carries the error text of `build()`.
pub fn build(config: Config, policy: Policy, partials: &Partials) -> Result<liquid::Parser, String> {
    new_parser_epoch();
    let b = base(config);
    let r = match policy {
        Policy::None => b.build(),
        Policy::Eager => b
            .partials(liquid::partials::EagerCompiler::new(source(partials)))
            .build(),
        Policy::Lazy => b
            .partials(liquid::partials::LazyCompiler::new(source(partials)))
            .build(),
        Policy::OnDemand => b
            .partials(liquid::partials::OnDemandCompiler::new(source(partials)))
            .build(),
    };
    r.map_err(|e| e.to_string())
}

pub fn parser(config: Config) -> liquid::Parser {
    build(config, Policy::None, &Vec::new()).expect("harness: parser builds")
}

/// jekyll's `sort` replaces the stdlib one when registered; kept separate so the
/// stdlib `sort` stays reachable in the Full configuration.
pub fn parser_jekyll_sort() -> liquid::Parser {
    new_parser_epoch();
    add_full(liquid::ParserBuilder::with_stdlib())
        .filter(liquid_lib::jekyll::Sort)
        .filter(Dump)
        .build()
        .expect("harness: parser builds")
}

#[derive(Clone, Debug, PartialEq, Eq, Hash)]
pub enum Outcome {
    ParseErr(String),
    RenderErr(String),
    Ok(String),
    Panic(String),
    /// bytes written were not UTF-8 / differed between render() and render_to()
    Corrupt(String),
}

impl Outcome {
    pub fn is_ok(&self) -> bool {
        matches!(self, Outcome::Ok(_))
    }
    pub fn is_err(&self) -> bool {
        matches!(self, Outcome::ParseErr(_) | Outcome::RenderErr(_))
    }
    pub fn short(&self) -> String {
        match self {
            Outcome::ParseErr(m) => format!("ParseErr({})", first_line(m)),
            Outcome::RenderErr(m) => format!("RenderErr({})", first_line(m)),
            Outcome::Ok(s) => format!("Ok({s:?})"),
            Outcome::Panic(m) => format!("Panic({m})"),
            Outcome::Corrupt(m) => format!("Corrupt({m})"),
        }
    }
    pub fn to_json(&self) -> serde_json::Value {
        serde_json::json!(self.short())
    }
}

pub fn first_line(m: &str) -> String {
    let l = m.lines().find(|l| !l.trim().is_empty()).unwrap_or("");
    l.chars().take(160).collect()
}

pub fn parse_guarded(p: &liquid::Parser, text: &str) -> Result<Result<liquid::Template, String>, PanicInfo> {
    guard(|| p.parse(text).map_err(|e| e.to_string()))
}

pub fn render_guarded(t: &liquid::Template, globals: &liquid::Object) -> Result<Result<String, String>, PanicInfo> {
    guard(|| t.render(globals).map_err(|e| e.to_string()))
}

// ---------------------------------------------------------------- template reuse (re-execution for free)
//
// `run_case` keeps, per worker thread, the parsed template of every (parser, text) it has seen and
// renders *that object* again when the same text comes back with other data.  Every family that
// varies data under a fixed template text (filter inputs through variables, loop windows through
// variables, paths with variable indices, comparison operands ...) thereby also re-executes each
// renderable and filter instance with different operands: anything an instance remembers from
// its previous execution (a hint, a memoised argument, a buffer) makes the result differ from the
// reference.  When a violation is reported right after such a render, the annotator re-runs the
// case on a fresh parse; if that gives another result the violation is qualified
// `depends-on-previous-execution` and the witness carries the previous data (a two-step history).
// On a tree where rendering is repeatable (C09) reuse cannot change any result.
static PARSER_EPOCH: std::sync::atomic::AtomicU64 = std::sync::atomic::AtomicU64::new(0);
static REUSE_PARSES: std::sync::atomic::AtomicU64 = std::sync::atomic::AtomicU64::new(0);
static REUSE_RERENDERS: std::sync::atomic::AtomicU64 = std::sync::atomic::AtomicU64::new(0);

struct LastRun {
    parser: *const liquid::Parser,
    text: String,
    prev: Option<liquid::Object>,
    cur: liquid::Object,
    outcome: Outcome,
}

struct Reuse {
    epoch: u64,
    map: std::collections::HashMap<(usize, String), (Result<liquid::Template, String>, Option<liquid::Object>)>,
    last: Option<LastRun>,
}

thread_local! {
    static REUSE: std::cell::RefCell<Reuse> = std::cell::RefCell::new(Reuse { epoch: 0, map: Default::default(), last: None });
}

/// A parser was built: addresses may be reused, so every thread drops its templates lazily.
fn new_parser_epoch() {
    PARSER_EPOCH.fetch_add(1, std::sync::atomic::Ordering::SeqCst);
}

fn reuse_enabled() -> bool {
    static ON: std::sync::OnceLock<bool> = std::sync::OnceLock::new();
    *ON.get_or_init(|| std::env::var("LQV_NO_REUSE").is_err())
}

pub fn install_reuse_annotator() {
    crate::report::set_violation_annotator(Some(annotate_violation));
    crate::report::set_extra_provider(Some(|| {
        use std::sync::atomic::Ordering::Relaxed;
        vec![(
            "template_reuse".to_string(),
            serde_json::json!({
                "enabled": reuse_enabled(),
                "templates_parsed": REUSE_PARSES.load(Relaxed),
                "renders_on_an_already_executed_template_with_other_data": REUSE_RERENDERS.load(Relaxed),
                "meaning": "run_case renders the per-thread parsed template again when a text recurs; those renders re-execute every renderable/filter instance with new operands (state kept in an instance would change the result)",
            }),
        )]
    }));
}

fn annotate_violation(witness: &mut serde_json::Value, detail: &mut String) -> Option<String> {
    if !reuse_enabled() {
        return None;
    }
    let (last, epoch) = REUSE.with(|r| {
        let mut r = r.borrow_mut();
        (r.last.take(), r.epoch)
    });
    let last = last?;
    if epoch != PARSER_EPOCH.load(std::sync::atomic::Ordering::SeqCst) {
        return None; // a parser was built since: the recorded address may be stale
    }
    let prev = last.prev.as_ref()?;
    // the violation must be about this run: the witness names the same template text
    if witness.get("template").and_then(|t| t.as_str()) != Some(last.text.as_str()) {
        return None;
    }
    // SAFETY: `last.parser` was a live `&Parser` in the `run_case` call that immediately preceded
    // this violation on this thread; families keep their parser alive while they report.
    let parser: &liquid::Parser = unsafe { &*last.parser };
    let fresh = run_case_fresh(parser, &last.text, &last.cur).0;
    if fresh == last.outcome {
        return None;
    }
    let obj_json = |o: &liquid::Object| serde_json::to_value(o).unwrap_or(serde_json::Value::Null);
    witness["kind"] = serde_json::json!("reexec");
    witness["history"] = serde_json::json!([obj_json(prev), obj_json(&last.cur)]);
    witness["fresh_parse_outcome"] = fresh.to_json();
    witness["reused_template_outcome"] = last.outcome.to_json();
    witness["note"] = serde_json::json!("the same parsed template was rendered with history[0] and then with history[1]; a freshly parsed copy gives fresh_parse_outcome for history[1]");
    detail.push_str(&format!(" [on a freshly parsed copy: {}; the result depends on the template's previous execution]", fresh.short()));
    Some("depends-on-previous-execution".to_string())
}

fn run_case_fresh(p: &liquid::Parser, text: &str, globals: &liquid::Object) -> (Outcome, Option<PanicInfo>) {
    match parse_guarded(p, text) {
        Err(pi) => (Outcome::Panic(pi.describe()), Some(pi)),
        Ok(Err(e)) => (Outcome::ParseErr(e), None),
        Ok(Ok(t)) => match render_guarded(&t, globals) {
            Err(pi) => (Outcome::Panic(pi.describe()), Some(pi)),
            Ok(Err(e)) => (Outcome::RenderErr(e), None),
            Ok(Ok(s)) => (Outcome::Ok(s), None),
        },
    }
}

/// Parse (once per thread and text) and render, totally guarded.
pub fn run_case(p: &liquid::Parser, text: &str, globals: &liquid::Object) -> (Outcome, Option<PanicInfo>) {
    if !reuse_enabled() || text.len() > 4096 {
        return run_case_fresh(p, text, globals);
    }
    REUSE.with(|r| {
        let mut r = r.borrow_mut();
        let epoch = PARSER_EPOCH.load(std::sync::atomic::Ordering::SeqCst);
        if r.epoch != epoch || r.map.len() > 50_000 {
            r.map.clear();
            r.epoch = epoch;
        }
        r.last = None;
        let key = (p as *const liquid::Parser as usize, text.to_string());
        if !r.map.contains_key(&key) {
            let parsed = match parse_guarded(p, text) {
                Err(pi) => return (Outcome::Panic(pi.describe()), Some(pi)),
                Ok(x) => x,
            };
            REUSE_PARSES.fetch_add(1, std::sync::atomic::Ordering::Relaxed);
            r.map.insert(key.clone(), (parsed, None));
        }
        let entry = r.map.get_mut(&key).expect("just inserted");
        let (outcome, pi) = match &entry.0 {
            Err(e) => (Outcome::ParseErr(e.clone()), None),
            Ok(t) => match render_guarded(t, globals) {
                Err(pi) => (Outcome::Panic(pi.describe()), Some(pi)),
                Ok(Err(e)) => (Outcome::RenderErr(e), None),
                Ok(Ok(s)) => (Outcome::Ok(s), None),
            },
        };
        let prev = entry.1.replace(globals.clone());
        if prev.as_ref().map(|p| p != globals).unwrap_or(false) {
            REUSE_RERENDERS.fetch_add(1, std::sync::atomic::Ordering::Relaxed);
        }
        r.last = Some(LastRun { parser: p as *const liquid::Parser, text: key.1, prev, cur: globals.clone(), outcome: outcome.clone() });
        (outcome, pi)
    })
}

#[allow(dead_code)]
fn run_case_unused(p: &liquid::Parser, text: &str, globals: &liquid::Object) -> (Outcome, Option<PanicInfo>) {
    match parse_guarded(p, text) {
        Err(pi) => (Outcome::Panic(pi.describe()), Some(pi)),
        Ok(Err(e)) => (Outcome::ParseErr(e), None),
        Ok(Ok(t)) => match render_guarded(&t, globals) {
            Err(pi) => (Outcome::Panic(pi.describe()), Some(pi)),
            Ok(Err(e)) => (Outcome::RenderErr(e), None),
            Ok(Ok(s)) => (Outcome::Ok(s), None),
        },
    }
}

pub fn globals(pairs: &[(&str, V)]) -> liquid::Object {
    V::obj(pairs).to_object()
}

// ---------------------------------------------------------------- dump filter

#[derive(Clone, ParseFilter, FilterReflection)]
#[filter(
    name = "dump",
    description = "harness: structural rendering of a value",
    parsed(DumpFilter)
)]
pub struct Dump;

#[derive(Debug, Default, Display_filter)]
#[name = "dump"]
struct DumpFilter;

impl Filter for DumpFilter {
    fn evaluate(&self, input: &dyn ValueView, _runtime: &dyn Runtime) -> LResult<Value> {
        Ok(Value::scalar(dump_view(input)))
    }
}

/// Structural rendering: `nil`, `b:true`, `i:3`, `f:0.5`, `s:"a"`, `d:…`, `t:…`,
/// `[..]`, `{k=..}` (object keys sorted), `state:empty`.
pub fn dump_view(v: &dyn ValueView) -> String {
    if v.is_nil() {
        return "nil".into();
    }
    if let Some(st) = v.as_state() {
        return format!("state:{}", st.type_name());
    }
    if let Some(a) = v.as_array() {
        let parts: Vec<String> = a.values().map(dump_view).collect();
        return format!("[{}]", parts.join(","));
    }
    if let Some(o) = v.as_object() {
        let mut parts: Vec<(String, String)> = o
            .iter()
            .map(|(k, v)| (k.to_string(), dump_view(v)))
            .collect();
        parts.sort();
        let parts: Vec<String> = parts.into_iter().map(|(k, v)| format!("{k}={v}")).collect();
        return format!("{{{}}}", parts.join(","));
    }
    if let Some(s) = v.as_scalar() {
        let tn = s.type_name();
        return match tn {
            "whole number" => format!("i:{}", s.render()),
            "fractional number" => format!("f:{}", s.render()),
            "boolean" => format!("b:{}", s.render()),
            "string" => format!("s:{:?}", s.to_kstr().as_str()),
            "date" => format!("d:{}", s.render()),
            "date time" => format!("t:{}", s.render()),
            other => format!("?{other}:{}", s.render()),
        };
    }
    format!("?{}", v.type_name())
}

/// The same structural rendering for a harness value (the expectation side).
pub fn dump_v(v: &V) -> String {
    match v {
        V::Nil => "nil".into(),
        V::Empty => "state:empty".into(),
        V::Blank => "state:blank".into(),
        V::Bool(b) => format!("b:{b}"),
        V::Int(i) => format!("i:{i}"),
        V::Float(f) => format!("f:{f}"),
        V::Str(s) => format!("s:{s:?}"),
        V::Date(y, m, d) => format!("d:{y:04}-{m:02}-{d:02}"),
        V::DateTime(s) => format!("t:{s}"),
        V::Arr(a) => format!("[{}]", a.iter().map(dump_v).collect::<Vec<_>>().join(",")),
        V::Obj(o) => {
            let mut parts: Vec<(String, String)> =
                o.iter().map(|(k, v)| (k.clone(), dump_v(v))).collect();
            parts.sort();
            format!(
                "{{{}}}",
                parts
                    .into_iter()
                    .map(|(k, v)| format!("{k}={v}"))
                    .collect::<Vec<_>>()
                    .join(",")
            )
        }
    }
}
