//! Exhaustive, index-addressable program generator: all statement blocks of
//! exactly `n` nodes over a leaf/compound alphabet, nesting bounded.

use crate::ast::*;
use crate::val::V;

pub type Wrap = Box<dyn Fn(Vec<Stmt>) -> Stmt + Send + Sync>;

pub struct Grammar {
    pub leaves: Vec<Stmt>,
    pub compounds: Vec<Wrap>,
    pub max_depth: usize,
    /// memo: count_block[d][n]
    cb: Vec<Vec<u64>>,
}

impl Grammar {
    pub fn new(leaves: Vec<Stmt>, compounds: Vec<Wrap>, max_depth: usize, max_n: usize) -> Grammar {
        let mut g = Grammar { leaves, compounds, max_depth, cb: Vec::new() };
        // fill tables from the deepest level upward
        let mut cb = vec![vec![0u64; max_n + 1]; max_depth + 2];
        for d in (0..=max_depth).rev() {
            for n in 0..=max_n {
                cb[d][n] = if n == 0 {
                    1
                } else {
                    let mut t = 0u64;
                    for s in 1..=n {
                        t += g.count_stmt_with(&cb, s, d) * cb[d][n - s];
                    }
                    t
                };
            }
        }
        g.cb = cb;
        g
    }

    fn count_stmt_with(&self, cb: &[Vec<u64>], s: usize, d: usize) -> u64 {
        let mut c = 0;
        if s == 1 {
            c += self.leaves.len() as u64;
        }
        if d < self.max_depth {
            c += self.compounds.len() as u64 * cb[d + 1][s - 1];
        }
        c
    }

    fn count_stmt(&self, s: usize, d: usize) -> u64 {
        self.count_stmt_with(&self.cb, s, d)
    }

    /// number of blocks with exactly n nodes at top level
    pub fn count(&self, n: usize) -> u64 {
        self.cb[0][n]
    }

    /// number of blocks with 1..=n nodes
    pub fn count_upto(&self, n: usize) -> u64 {
        (1..=n).map(|k| self.count(k)).sum()
    }

    /// decode index over blocks with 1..=n nodes, smaller programs first
    pub fn unrank_upto(&self, mut idx: u64, n: usize) -> Vec<Stmt> {
        for k in 1..=n {
            let c = self.count(k);
            if idx < c {
                return self.unrank_block(idx, k, 0);
            }
            idx -= c;
        }
        panic!("unrank_upto: index out of range");
    }

    pub fn unrank_block(&self, mut idx: u64, n: usize, d: usize) -> Vec<Stmt> {
        if n == 0 {
            return Vec::new();
        }
        for s in 1..=n {
            let cs = self.count_stmt(s, d);
            let rest = self.cb[d][n - s];
            let c = cs * rest;
            if idx < c {
                let si = idx / rest;
                let ri = idx % rest;
                let mut out = vec![self.unrank_stmt(si, s, d)];
                out.extend(self.unrank_block(ri, n - s, d));
                return out;
            }
            idx -= c;
        }
        panic!("unrank_block: index out of range");
    }

    fn unrank_stmt(&self, mut idx: u64, s: usize, d: usize) -> Stmt {
        if s == 1 {
            if idx < self.leaves.len() as u64 {
                return self.leaves[idx as usize].clone();
            }
            idx -= self.leaves.len() as u64;
        }
        let per = self.cb[d + 1][s - 1];
        let k = (idx / per) as usize;
        let body = self.unrank_block(idx % per, s - 1, d + 1);
        (self.compounds[k])(body)
    }
}

/// Gives every `Assign(_, Lit)` / include-argument literal placeholder a
/// unique value so that the winning binding is identifiable in the output.
pub fn number_literals(stmts: &mut [Stmt], counter: &mut usize) {
    for st in stmts.iter_mut() {
        match st {
            Stmt::Assign(_, Expr::Lit(V::Str(s))) if s == "?" => {
                *counter += 1;
                *s = format!("v{counter}");
            }
            Stmt::Include { args, .. } | Stmt::Render { args, .. } => {
                for (_, e) in args.iter_mut() {
                    if let Expr::Lit(V::Str(s)) = e {
                        if s == "?" {
                            *counter += 1;
                            *s = format!("i{counter}");
                        }
                    }
                }
            }
            Stmt::Capture(_, b) | Stmt::IfChanged(b) => number_literals(b, counter),
            Stmt::If { body, elsifs, else_, .. } => {
                number_literals(body, counter);
                for (_, b) in elsifs.iter_mut() {
                    number_literals(b, counter);
                }
                if let Some(e) = else_ {
                    number_literals(e, counter);
                }
            }
            Stmt::For { body, else_, .. } => {
                number_literals(body, counter);
                if let Some(e) = else_ {
                    number_literals(e, counter);
                }
            }
            Stmt::TableRow { body, .. } => number_literals(body, counter),
            Stmt::Case { whens, else_, .. } => {
                for (_, _, b) in whens.iter_mut() {
                    number_literals(b, counter);
                }
                if let Some(e) = else_ {
                    number_literals(e, counter);
                }
            }
            _ => {}
        }
    }
}

/// `<x,y>` probe group that never raises.
pub fn probes(names: &[&str]) -> Vec<Stmt> {
    let mut v = vec![text("<")];
    for (i, n) in names.iter().enumerate() {
        if i > 0 {
            v.push(text(","));
        }
        v.push(probe(n));
    }
    v.push(text(">"));
    v
}

/// Inserts a probe group after every statement and at the start of every body.
pub fn instrument(stmts: &[Stmt], names: &[&str]) -> Vec<Stmt> {
    let mut out = Vec::new();
    for st in stmts {
        let st2 = match st {
            // a capture of one fixed text stays as it is: its text must not depend on the probes, so that the same
            // text can be captured twice with something else bound in between
            Stmt::Capture(_, b) if b.len() == 1 && matches!(b[0], Stmt::Text(_)) => st.clone(),
            Stmt::Capture(n, b) => Stmt::Capture(n.clone(), instrument_body(b, names)),
            Stmt::IfChanged(b) => Stmt::IfChanged(instrument_body(b, names)),
            Stmt::If { unless, cond, body, elsifs, else_ } => Stmt::If {
                unless: *unless,
                cond: cond.clone(),
                body: instrument_body(body, names),
                elsifs: elsifs.iter().map(|(c, b)| (c.clone(), instrument_body(b, names))).collect(),
                else_: else_.as_ref().map(|e| instrument_body(e, names)),
            },
            Stmt::For { var, src, limit, offset, reversed, body, else_ } => Stmt::For {
                var: var.clone(),
                src: src.clone(),
                limit: limit.clone(),
                offset: offset.clone(),
                reversed: *reversed,
                body: instrument_body(body, names),
                else_: else_.as_ref().map(|e| instrument_body(e, names)),
            },
            Stmt::TableRow { var, src, cols, limit, offset, body } => Stmt::TableRow {
                var: var.clone(),
                src: src.clone(),
                cols: cols.clone(),
                limit: limit.clone(),
                offset: offset.clone(),
                body: instrument_body(body, names),
            },
            Stmt::Case { target, whens, else_ } => Stmt::Case {
                target: target.clone(),
                whens: whens.iter().map(|(v, o, b)| (v.clone(), *o, instrument_body(b, names))).collect(),
                else_: else_.as_ref().map(|e| instrument_body(e, names)),
            },
            other => other.clone(),
        };
        out.push(st2);
        out.extend(probes(names));
    }
    out
}

fn instrument_body(b: &[Stmt], names: &[&str]) -> Vec<Stmt> {
    let mut v = probes(names);
    v.extend(instrument(b, names));
    v
}
