//! lqv-core: bounded-exhaustive exploration machinery for the liquid-rust
//! properties C01..C19 (C20 lives in `lqv-sched`).
pub mod ast;
pub mod cfgs;
pub mod cmp;
pub mod progen;
pub mod refl;
pub mod replay;
pub mod props;
pub use lqv_report as report;
pub mod run;
pub mod val;

use report::Tier;

pub fn run_property(id: &str, tier: Tier) -> i32 {
    run::install_panic_hook();
    cfgs::install_reuse_annotator();
    match id {
        "C01" => props::c01::run(tier),
        "C02" => props::c02::run(tier),
        "C03" => props::c03::run(tier),
        "C04" => props::c04::run(tier),
        "C05" => props::c05::run(tier),
        "C06" => props::c06::run(tier),
        "C07" => props::c07::run(tier),
        "C08" => props::c08::run(tier),
        "C09" => props::c09::run(tier),
        "C10" => props::c10::run(tier),
        "C11" => props::c11::run(tier),
        "C12" => props::c12::run(tier),
        "C13" => props::c13::run(tier),
        "C14" => props::c14::run(tier),
        "C15" => props::c15::run(tier),
        "C16" => props::c16::run(tier),
        "C17" => props::c17::run(tier),
        "C18" => props::c18::run(tier),
        "C19" => props::c19::run(tier),
        _ => {
            eprintln!("unknown property {id}");
            2
        }
    }
}
