//! Program AST for generated templates and its pretty-printer.

use crate::val::V;

#[derive(Clone, Debug, PartialEq)]
pub enum Step {
    /// `.key`
    Dot(String),
    /// `[expr]`
    Bracket(Expr),
}

#[derive(Clone, Debug, PartialEq)]
pub enum Expr {
    Lit(V),
    Var(String, Vec<Step>),
}

impl Expr {
    pub fn var(name: &str) -> Expr {
        Expr::Var(name.to_string(), Vec::new())
    }
    pub fn path(name: &str, dots: &[&str]) -> Expr {
        Expr::Var(name.to_string(), dots.iter().map(|d| Step::Dot(d.to_string())).collect())
    }
    pub fn int(i: i64) -> Expr {
        Expr::Lit(V::Int(i))
    }
    pub fn s(x: &str) -> Expr {
        Expr::Lit(V::s(x))
    }
    pub fn print(&self) -> String {
        match self {
            Expr::Lit(v) => v.literal().unwrap_or_else(|| panic!("harness: value {v:?} has no literal syntax")),
            Expr::Var(n, steps) => {
                let mut s = n.clone();
                for st in steps {
                    match st {
                        Step::Dot(k) => {
                            s.push('.');
                            s.push_str(k);
                        }
                        Step::Bracket(e) => {
                            s.push('[');
                            s.push_str(&e.print());
                            s.push(']');
                        }
                    }
                }
                s
            }
        }
    }
}

#[derive(Clone, Copy, Debug, PartialEq, Eq, Hash)]
pub enum Op {
    Eq,
    Ne,
    Ne2,
    Lt,
    Gt,
    Le,
    Ge,
    Contains,
}

impl Op {
    pub const ALL: [Op; 8] = [Op::Eq, Op::Ne, Op::Ne2, Op::Lt, Op::Gt, Op::Le, Op::Ge, Op::Contains];
    pub fn print(self) -> &'static str {
        match self {
            Op::Eq => "==",
            Op::Ne => "!=",
            Op::Ne2 => "<>",
            Op::Lt => "<",
            Op::Gt => ">",
            Op::Le => "<=",
            Op::Ge => ">=",
            Op::Contains => "contains",
        }
    }
}

#[derive(Clone, Debug, PartialEq)]
pub enum Cond {
    Truthy(Expr),
    Bin(Expr, Op, Expr),
    And(Box<Cond>, Box<Cond>),
    Or(Box<Cond>, Box<Cond>),
}

impl Cond {
    /// Flat printing; the generator only builds trees whose flat text groups
    /// the same way under "`and` binds tighter than `or`".
    pub fn print(&self) -> String {
        match self {
            Cond::Truthy(e) => e.print(),
            Cond::Bin(a, op, b) => format!("{} {} {}", a.print(), op.print(), b.print()),
            Cond::And(a, b) => format!("{} and {}", a.print(), b.print()),
            Cond::Or(a, b) => format!("{} or {}", a.print(), b.print()),
        }
    }
}

#[derive(Clone, Debug, PartialEq)]
pub enum Src {
    Expr(Expr),
    Range(Expr, Expr),
}

impl Src {
    pub fn print(&self) -> String {
        match self {
            Src::Expr(e) => e.print(),
            Src::Range(a, b) => format!("({}..{})", a.print(), b.print()),
        }
    }
}

#[derive(Clone, Debug, PartialEq)]
pub enum RenderForm {
    Plain,
    With(Expr, String),
    For(Src, String),
}

#[derive(Clone, Debug, PartialEq)]
pub enum Stmt {
    Text(String),
    Out(Expr),
    /// `{{ expr | dump }}` (harness filter: structural rendering)
    OutDump(Expr),
    Assign(String, Expr),
    Capture(String, Vec<Stmt>),
    Incr(String),
    Decr(String),
    Cycle(Option<String>, Vec<Expr>),
    IfChanged(Vec<Stmt>),
    If {
        unless: bool,
        cond: Cond,
        body: Vec<Stmt>,
        elsifs: Vec<(Cond, Vec<Stmt>)>,
        else_: Option<Vec<Stmt>>,
    },
    Case {
        target: Expr,
        /// (values, separators between them: true = "or", false = ","), body
        whens: Vec<(Vec<Expr>, bool, Vec<Stmt>)>,
        else_: Option<Vec<Stmt>>,
    },
    For {
        var: String,
        src: Src,
        limit: Option<Expr>,
        offset: Option<Expr>,
        reversed: bool,
        body: Vec<Stmt>,
        else_: Option<Vec<Stmt>>,
    },
    TableRow {
        var: String,
        src: Src,
        cols: Option<Expr>,
        limit: Option<Expr>,
        offset: Option<Expr>,
        body: Vec<Stmt>,
    },
    Break,
    Continue,
    Include {
        name: Expr,
        args: Vec<(String, Expr)>,
    },
    Render {
        name: Expr,
        form: RenderForm,
        args: Vec<(String, Expr)>,
    },
    Raw(String),
    Comment(String),
}

pub fn if_(cond: Cond, body: Vec<Stmt>, else_: Option<Vec<Stmt>>) -> Stmt {
    Stmt::If { unless: false, cond, body, elsifs: vec![], else_ }
}

/// Probe that never raises: prints the value of `name` if it is bound to a
/// truthy value, `-` otherwise.
pub fn probe(name: &str) -> Stmt {
    if_(
        Cond::Truthy(Expr::var(name)),
        vec![Stmt::Out(Expr::var(name))],
        Some(vec![Stmt::Text("-".into())]),
    )
}

pub fn for_(var: &str, src: Src, body: Vec<Stmt>) -> Stmt {
    Stmt::For { var: var.into(), src, limit: None, offset: None, reversed: false, body, else_: None }
}

pub fn text(s: &str) -> Stmt {
    Stmt::Text(s.to_string())
}

pub fn print(stmts: &[Stmt]) -> String {
    let mut s = String::new();
    for st in stmts {
        print_stmt(st, &mut s);
    }
    s
}

fn args_str(args: &[(String, Expr)]) -> String {
    args.iter().map(|(k, v)| format!("{k}: {}", v.print())).collect::<Vec<_>>().join(", ")
}

fn print_stmt(st: &Stmt, s: &mut String) {
    match st {
        Stmt::Text(t) => s.push_str(t),
        Stmt::Out(e) => s.push_str(&format!("{{{{ {} }}}}", e.print())),
        Stmt::OutDump(e) => s.push_str(&format!("{{{{ {} | dump }}}}", e.print())),
        Stmt::Assign(n, e) => s.push_str(&format!("{{% assign {n} = {} %}}", e.print())),
        Stmt::Capture(n, b) => {
            s.push_str(&format!("{{% capture {n} %}}"));
            s.push_str(&print(b));
            s.push_str("{% endcapture %}");
        }
        Stmt::Incr(n) => s.push_str(&format!("{{% increment {n} %}}")),
        Stmt::Decr(n) => s.push_str(&format!("{{% decrement {n} %}}")),
        Stmt::Cycle(g, vals) => {
            let v = vals.iter().map(|e| e.print()).collect::<Vec<_>>().join(", ");
            match g {
                Some(g) => s.push_str(&format!("{{% cycle {g}: {v} %}}")),
                None => s.push_str(&format!("{{% cycle {v} %}}")),
            }
        }
        Stmt::IfChanged(b) => {
            s.push_str("{% ifchanged %}");
            s.push_str(&print(b));
            s.push_str("{% endifchanged %}");
        }
        Stmt::If { unless, cond, body, elsifs, else_ } => {
            let kw = if *unless { "unless" } else { "if" };
            s.push_str(&format!("{{% {kw} {} %}}", cond.print()));
            s.push_str(&print(body));
            for (c, b) in elsifs {
                s.push_str(&format!("{{% elsif {} %}}", c.print()));
                s.push_str(&print(b));
            }
            if let Some(e) = else_ {
                s.push_str("{% else %}");
                s.push_str(&print(e));
            }
            s.push_str(&format!("{{% end{kw} %}}"));
        }
        Stmt::Case { target, whens, else_ } => {
            s.push_str(&format!("{{% case {} %}}", target.print()));
            for (vals, or, body) in whens {
                let sep = if *or { " or " } else { ", " };
                let v = vals.iter().map(|e| e.print()).collect::<Vec<_>>().join(sep);
                s.push_str(&format!("{{% when {v} %}}"));
                s.push_str(&print(body));
            }
            if let Some(e) = else_ {
                s.push_str("{% else %}");
                s.push_str(&print(e));
            }
            s.push_str("{% endcase %}");
        }
        Stmt::For { var, src, limit, offset, reversed, body, else_ } => {
            let mut h = format!("{{% for {var} in {}", src.print());
            if let Some(l) = limit {
                h.push_str(&format!(" limit:{}", l.print()));
            }
            if let Some(o) = offset {
                h.push_str(&format!(" offset:{}", o.print()));
            }
            if *reversed {
                h.push_str(" reversed");
            }
            h.push_str(" %}");
            s.push_str(&h);
            s.push_str(&print(body));
            if let Some(e) = else_ {
                s.push_str("{% else %}");
                s.push_str(&print(e));
            }
            s.push_str("{% endfor %}");
        }
        Stmt::TableRow { var, src, cols, limit, offset, body } => {
            let mut h = format!("{{% tablerow {var} in {}", src.print());
            if let Some(c) = cols {
                h.push_str(&format!(" cols:{}", c.print()));
            }
            if let Some(l) = limit {
                h.push_str(&format!(" limit:{}", l.print()));
            }
            if let Some(o) = offset {
                h.push_str(&format!(" offset:{}", o.print()));
            }
            h.push_str(" %}");
            s.push_str(&h);
            s.push_str(&print(body));
            s.push_str("{% endtablerow %}");
        }
        Stmt::Break => s.push_str("{% break %}"),
        Stmt::Continue => s.push_str("{% continue %}"),
        Stmt::Include { name, args } => {
            if args.is_empty() {
                s.push_str(&format!("{{% include {} %}}", name.print()));
            } else {
                s.push_str(&format!("{{% include {} {} %}}", name.print(), args_str(args)));
            }
        }
        Stmt::Render { name, form, args } => {
            let mut h = format!("{{% render {}", name.print());
            match form {
                RenderForm::Plain => {}
                RenderForm::With(e, k) => h.push_str(&format!(" with {} as {k}", e.print())),
                RenderForm::For(src, k) => h.push_str(&format!(" for {} as {k}", src.print())),
            }
            if !args.is_empty() {
                h.push_str(&format!(", {}", args_str(args)));
            }
            h.push_str(" %}");
            s.push_str(&h);
        }
        Stmt::Raw(t) => s.push_str(&format!("{{% raw %}}{t}{{% endraw %}}")),
        Stmt::Comment(t) => s.push_str(&format!("{{% comment %}}{t}{{% endcomment %}}")),
    }
}

/// number of statement nodes
pub fn size(stmts: &[Stmt]) -> usize {
    stmts.iter().map(size1).sum()
}

fn size1(st: &Stmt) -> usize {
    1 + match st {
        Stmt::Capture(_, b) | Stmt::IfChanged(b) => size(b),
        Stmt::If { body, elsifs, else_, .. } => {
            size(body) + elsifs.iter().map(|(_, b)| size(b)).sum::<usize>() + else_.as_ref().map(|e| size(e)).unwrap_or(0)
        }
        Stmt::Case { whens, else_, .. } => {
            whens.iter().map(|(_, _, b)| size(b)).sum::<usize>() + else_.as_ref().map(|e| size(e)).unwrap_or(0)
        }
        Stmt::For { body, else_, .. } => size(body) + else_.as_ref().map(|e| size(e)).unwrap_or(0),
        Stmt::TableRow { body, .. } => size(body),
        _ => 0,
    }
}
