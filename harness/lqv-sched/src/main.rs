fn main(){}
