//! Evidence, violation bookkeeping, known findings, exit codes.
//!
//! Exit codes: 0 = property held on everything explored (known findings are
//! printed as `KNOWN-FINDING:` lines), 1 = at least one violation that
//! `known_findings.json` does not list (`VIOLATION property=<id> replay=<path>`),
//! 2 = machinery failure (never a verdict).

use serde_json::{json, Value as J};
use std::collections::{BTreeMap, HashSet};
use std::sync::atomic::{AtomicU64, Ordering};
use std::sync::Mutex;
use std::time::Instant;

#[derive(Copy, Clone, Debug, PartialEq, Eq)]
pub enum Tier {
    Quick,
    Thorough,
}

impl Tier {
    pub fn name(self) -> &'static str {
        match self {
            Tier::Quick => "quick",
            Tier::Thorough => "thorough",
        }
    }
    pub fn thorough(self) -> bool {
        self == Tier::Thorough
    }
}

#[derive(Debug, Clone)]
pub struct Violation {
    pub order: u64,
    pub witness: J,
    pub detail: String,
    pub count: u64,
}

#[derive(Debug, Default, Clone)]
pub struct FamilyStat {
    pub name: String,
    pub cases: u64,
    pub nontrivial: u64,
    pub skipped: u64,
    pub note: String,
}

pub struct Report {
    pub property: &'static str,
    pub tier: Tier,
    pub seed: u64,
    pub level: &'static str,
    pub start: Instant,
    pub evaluations: AtomicU64,
    pub nontrivial: AtomicU64,
    pub skipped: AtomicU64,
    outcomes: Mutex<HashSet<u64>>,
    outcomes_capped: AtomicU64,
    violations: Mutex<BTreeMap<String, Violation>>,
    samples: Mutex<Vec<J>>,
    families: Mutex<Vec<FamilyStat>>,
    extra: Mutex<BTreeMap<String, J>>,
    pub states: AtomicU64,
    pub transitions: AtomicU64,
    pub traces: AtomicU64,
    pub rule: Mutex<String>,
    pub assumptions: Mutex<Vec<String>>,
    pub exhaustive: Mutex<bool>,
}

const OUTCOME_CAP: usize = 4_000_000;

impl Report {
    pub fn new(property: &'static str, tier: Tier, level: &'static str) -> Report {
        let seed = std::env::var("VERIF_SEED")
            .ok()
            .and_then(|s| s.parse::<u64>().ok())
            .unwrap_or(0);
        Report {
            property,
            tier,
            seed,
            level,
            start: Instant::now(),
            evaluations: AtomicU64::new(0),
            nontrivial: AtomicU64::new(0),
            skipped: AtomicU64::new(0),
            outcomes: Mutex::new(HashSet::new()),
            outcomes_capped: AtomicU64::new(0),
            violations: Mutex::new(BTreeMap::new()),
            samples: Mutex::new(Vec::new()),
            families: Mutex::new(Vec::new()),
            extra: Mutex::new(BTreeMap::new()),
            states: AtomicU64::new(0),
            transitions: AtomicU64::new(0),
            traces: AtomicU64::new(0),
            rule: Mutex::new(String::new()),
            assumptions: Mutex::new(Vec::new()),
            exhaustive: Mutex::new(true),
        }
    }

    #[inline]
    pub fn eval(&self) {
        self.evaluations.fetch_add(1, Ordering::Relaxed);
    }
    #[inline]
    pub fn evals(&self, n: u64) {
        self.evaluations.fetch_add(n, Ordering::Relaxed);
    }
    #[inline]
    pub fn nontrivial(&self) {
        self.nontrivial.fetch_add(1, Ordering::Relaxed);
    }
    #[inline]
    pub fn skip(&self) {
        self.skipped.fetch_add(1, Ordering::Relaxed);
    }

    /// Record the hash of an observed outcome (vacuity guard: many executions
    /// with one outcome mean nothing was distinguished).
    pub fn outcome_hash(&self, h: u64) {
        let mut o = self.outcomes.lock().unwrap();
        if o.len() < OUTCOME_CAP {
            o.insert(h);
        } else {
            self.outcomes_capped.fetch_add(1, Ordering::Relaxed);
        }
    }
    pub fn outcome<T: std::hash::Hash>(&self, t: &T) {
        self.outcome_hash(hash_of(t));
    }
    pub fn outcomes_merge(&self, set: HashSet<u64>) {
        let mut o = self.outcomes.lock().unwrap();
        for h in set {
            if o.len() < OUTCOME_CAP {
                o.insert(h);
            } else {
                self.outcomes_capped.fetch_add(1, Ordering::Relaxed);
            }
        }
    }

    pub fn sample(&self, j: J) {
        let mut s = self.samples.lock().unwrap();
        if s.len() < 24 {
            s.push(j);
        }
    }
    pub fn samples_len(&self) -> usize {
        self.samples.lock().unwrap().len()
    }

    pub fn family(&self, f: FamilyStat) {
        eprintln!(
            "[{}] family {}: cases={} nontrivial={} skipped={} {} (t={:.1}s)",
            self.property,
            f.name,
            f.cases,
            f.nontrivial,
            f.skipped,
            f.note,
            self.start.elapsed().as_secs_f64()
        );
        self.families.lock().unwrap().push(f);
    }

    pub fn extra(&self, k: &str, v: J) {
        self.extra.lock().unwrap().insert(k.to_string(), v);
    }

    pub fn set_rule(&self, r: &str) {
        *self.rule.lock().unwrap() = r.to_string();
    }
    pub fn assume(&self, a: &str) {
        self.assumptions.lock().unwrap().push(a.to_string());
    }
    pub fn not_exhaustive(&self) {
        *self.exhaustive.lock().unwrap() = false;
    }

    /// Record a violation.  `sig` groups violations of one kind; the witness
    /// with the smallest `order` is kept for the replay file.
    pub fn violation(&self, sig: &str, order: u64, witness: J, detail: String) {
        // an installed annotator may qualify the signature and extend the witness (used by the
        // template-reuse machinery to say "this result depends on the previous execution")
        let (mut witness, mut detail) = (witness, detail);
        let annotator = *ANNOTATOR.read().unwrap_or_else(|e| e.into_inner());
        let qualified = annotator.and_then(|f| f(&mut witness, &mut detail)).map(|suffix| format!("{sig}|{suffix}"));
        let sig = qualified.as_deref().unwrap_or(sig);
        let mut v = self.violations.lock().unwrap();
        match v.get_mut(sig) {
            Some(e) => {
                e.count += 1;
                if order < e.order {
                    e.order = order;
                    e.witness = witness;
                    e.detail = detail;
                }
            }
            None => {
                v.insert(
                    sig.to_string(),
                    Violation {
                        order,
                        witness,
                        detail,
                        count: 1,
                    },
                );
            }
        }
    }

    /// Serialises counters, families and violations (worker subprocess -> coordinator).
    pub fn export(&self) -> J {
        let v = self.violations.lock().unwrap();
        json!({
            "evaluations": self.evaluations.load(Ordering::Relaxed),
            "nontrivial": self.nontrivial.load(Ordering::Relaxed),
            "skipped": self.skipped.load(Ordering::Relaxed),
            "states": self.states.load(Ordering::Relaxed),
            "transitions": self.transitions.load(Ordering::Relaxed),
            "traces": self.traces.load(Ordering::Relaxed),
            "outcomes": self.outcomes.lock().unwrap().iter().map(|h| h.to_string()).collect::<Vec<_>>(),
            "families": self.families.lock().unwrap().iter().map(|f| json!({"name": f.name, "cases": f.cases, "nontrivial": f.nontrivial, "skipped": f.skipped, "note": f.note})).collect::<Vec<_>>(),
            "violations": v.iter().map(|(k, x)| json!({"sig": k, "order": x.order, "witness": x.witness, "detail": x.detail, "count": x.count})).collect::<Vec<_>>(),
        })
    }

    pub fn import(&self, j: &J) {
        let g = |k: &str| j[k].as_u64().unwrap_or(0);
        self.evaluations.fetch_add(g("evaluations"), Ordering::Relaxed);
        self.nontrivial.fetch_add(g("nontrivial"), Ordering::Relaxed);
        self.skipped.fetch_add(g("skipped"), Ordering::Relaxed);
        self.states.fetch_add(g("states"), Ordering::Relaxed);
        self.transitions.fetch_add(g("transitions"), Ordering::Relaxed);
        self.traces.fetch_add(g("traces"), Ordering::Relaxed);
        if let Some(o) = j["outcomes"].as_array() {
            for h in o {
                if let Some(h) = h.as_str().and_then(|s| s.parse::<u64>().ok()) {
                    self.outcome_hash(h);
                }
            }
        }
        if let Some(fs) = j["families"].as_array() {
            for f in fs {
                self.family(FamilyStat {
                    name: f["name"].as_str().unwrap_or("").to_string(),
                    cases: f["cases"].as_u64().unwrap_or(0),
                    nontrivial: f["nontrivial"].as_u64().unwrap_or(0),
                    skipped: f["skipped"].as_u64().unwrap_or(0),
                    note: f["note"].as_str().unwrap_or("").to_string(),
                });
            }
        }
        if let Some(vs) = j["violations"].as_array() {
            for v in vs {
                let n = v["count"].as_u64().unwrap_or(1);
                for _ in 0..n.min(1) {
                    self.violation(v["sig"].as_str().unwrap_or("?"), v["order"].as_u64().unwrap_or(0), v["witness"].clone(), v["detail"].as_str().unwrap_or("").to_string());
                }
            }
        }
    }

    pub fn violation_count(&self) -> usize {
        self.violations.lock().unwrap().len()
    }

    /// Writes evidence, prints verdict lines and returns the exit code.
    pub fn finish(&self) -> i32 {
        if let Some(f) = *EXTRA_PROVIDER.read().unwrap_or_else(|e| e.into_inner()) {
            for (k, v) in f() {
                self.extra(&k, v);
            }
        }
        let wall = self.start.elapsed().as_secs_f64();
        let verif_dir = verif_dir();
        let known = load_known(&verif_dir);
        let violations = self.violations.lock().unwrap().clone();
        let mut new_violations = 0;
        let mut known_observed = Vec::new();
        let mut lines = Vec::new();
        let _ = std::fs::create_dir_all(format!("{verif_dir}/replays"));
        // replay files of earlier runs of this property are stale now
        if let Ok(rd) = std::fs::read_dir(format!("{verif_dir}/replays")) {
            for e in rd.flatten() {
                let n = e.file_name().to_string_lossy().to_string();
                if n.starts_with(&format!("{}-", self.property)) && n.ends_with(".json") {
                    let _ = std::fs::remove_file(e.path());
                }
            }
        }
        for (sig, v) in &violations {
            if let Some(k) = known
                .iter()
                .find(|k| k.property == self.property && k.matches(sig))
            {
                lines.push(format!(
                    "KNOWN-FINDING: property={} {} [signature={} occurrences={}]",
                    self.property, k.what, sig, v.count
                ));
                known_observed.push(json!({"signature": sig, "occurrences": v.count, "what": k.what}));
            } else {
                new_violations += 1;
                let path = format!(
                    "{verif_dir}/replays/{}-{:016x}.json",
                    self.property,
                    hash_of(&sig)
                );
                let body = json!({
                    "property": self.property,
                    "tier": self.tier.name(),
                    "signature": sig,
                    "occurrences": v.count,
                    "detail": v.detail,
                    "witness": v.witness,
                    "replay": format!("cd /verif && ./check {} --replay {}", self.property, path),
                });
                let _ = std::fs::write(&path, serde_json::to_string_pretty(&body).unwrap());
                lines.push(format!(
                    "VIOLATION property={} replay={}",
                    self.property, path
                ));
                eprintln!(
                    "[{}] violation signature={} occurrences={} detail={}",
                    self.property, sig, v.count, v.detail
                );
            }
        }

        let evaluations = self.evaluations.load(Ordering::Relaxed);
        let nontrivial = self.nontrivial.load(Ordering::Relaxed);
        let outcomes = self.outcomes.lock().unwrap().len();
        let mut coverage = serde_json::Map::new();
        coverage.insert("evaluations".into(), json!(evaluations));
        coverage.insert("distinct_nontrivial".into(), json!(nontrivial));
        coverage.insert("rule".into(), json!(*self.rule.lock().unwrap()));
        coverage.insert("samples".into(), json!(*self.samples.lock().unwrap()));
        coverage.insert("exhaustive".into(), json!(*self.exhaustive.lock().unwrap()));
        coverage.insert("distinct_outcomes".into(), json!(outcomes));
        coverage.insert(
            "distinct_outcomes_cap_hit".into(),
            json!(self.outcomes_capped.load(Ordering::Relaxed) > 0),
        );
        coverage.insert(
            "skipped_unspecified".into(),
            json!(self.skipped.load(Ordering::Relaxed)),
        );
        let st = self.states.load(Ordering::Relaxed);
        let tr = self.transitions.load(Ordering::Relaxed);
        if st > 0 || tr > 0 || self.level == "model_checking" {
            coverage.insert("states".into(), json!(st));
            coverage.insert("transitions".into(), json!(tr));
            coverage.insert(
                "traces_validated_against_impl".into(),
                json!(self.traces.load(Ordering::Relaxed)),
            );
        }
        let fams: Vec<J> = self
            .families
            .lock()
            .unwrap()
            .iter()
            .map(|f| json!({"name": f.name, "cases": f.cases, "nontrivial": f.nontrivial, "skipped": f.skipped, "note": f.note}))
            .collect();
        coverage.insert("families".into(), json!(fams));
        coverage.insert("known_findings_observed".into(), json!(known_observed));
        for (k, v) in self.extra.lock().unwrap().iter() {
            coverage.insert(k.clone(), v.clone());
        }
        let ev = json!({
            "property_id": self.property,
            "tier": self.tier.name(),
            "seed": self.seed,
            "level": self.level,
            "coverage": J::Object(coverage),
            "assumptions": *self.assumptions.lock().unwrap(),
            "wall_s": wall,
            "violations": new_violations,
        });
        let _ = std::fs::create_dir_all(format!("{verif_dir}/evidence"));
        let path = format!("{verif_dir}/evidence/{}.json", self.property);
        if let Err(e) = std::fs::write(&path, serde_json::to_string_pretty(&ev).unwrap()) {
            eprintln!("cannot write evidence {path}: {e}");
            return 2;
        }
        for l in &lines {
            println!("{l}");
        }
        println!(
            "[{}] tier={} evaluations={} distinct_nontrivial={} distinct_outcomes={} states={} transitions={} violations={} known={} wall={:.1}s",
            self.property,
            self.tier.name(),
            evaluations,
            nontrivial,
            outcomes,
            st,
            tr,
            new_violations,
            lines.len() - new_violations,
            wall
        );
        if evaluations == 0 {
            eprintln!("[{}] machinery failure: nothing was explored", self.property);
            return 2;
        }
        if new_violations > 0 {
            1
        } else {
            0
        }
    }
}

/// `fn(&mut witness, &mut detail) -> Option<signature suffix>`, consulted by every `violation`.
pub type Annotator = fn(&mut J, &mut String) -> Option<String>;
static ANNOTATOR: std::sync::RwLock<Option<Annotator>> = std::sync::RwLock::new(None);

/// Extra evidence entries computed at `finish` time (e.g. template-reuse counters).
pub type ExtraProvider = fn() -> Vec<(String, J)>;
static EXTRA_PROVIDER: std::sync::RwLock<Option<ExtraProvider>> = std::sync::RwLock::new(None);

pub fn set_extra_provider(f: Option<ExtraProvider>) {
    *EXTRA_PROVIDER.write().unwrap_or_else(|e| e.into_inner()) = f;
}

pub fn set_violation_annotator(f: Option<Annotator>) {
    *ANNOTATOR.write().unwrap_or_else(|e| e.into_inner()) = f;
}

pub fn verif_dir() -> String {
    std::env::var("VERIF_DIR").unwrap_or_else(|_| "/verif".to_string())
}

pub fn hash_of<T: std::hash::Hash + ?Sized>(t: &T) -> u64 {
    // FNV-1a based deterministic hasher (no per-process randomness).
    struct Fnv(u64);
    impl std::hash::Hasher for Fnv {
        fn finish(&self) -> u64 {
            self.0
        }
        fn write(&mut self, bytes: &[u8]) {
            for b in bytes {
                self.0 ^= *b as u64;
                self.0 = self.0.wrapping_mul(0x100000001b3);
            }
        }
    }
    let mut h = Fnv(0xcbf29ce484222325);
    std::hash::Hash::hash(t, &mut h);
    std::hash::Hasher::finish(&h)
}

pub struct Known {
    pub property: String,
    pub signature: String,
    pub mode: String,
    pub what: String,
}

impl Known {
    pub fn matches(&self, sig: &str) -> bool {
        match self.mode.as_str() {
            "prefix" => sig.starts_with(&self.signature),
            _ => sig == self.signature,
        }
    }
}

pub fn load_known(verif_dir: &str) -> Vec<Known> {
    let path = format!("{verif_dir}/known_findings.json");
    let Ok(text) = std::fs::read_to_string(&path) else {
        return Vec::new();
    };
    let Ok(j) = serde_json::from_str::<J>(&text) else {
        eprintln!("known_findings.json does not parse; treating as machinery failure");
        std::process::exit(2);
    };
    let mut out = Vec::new();
    if let Some(a) = j.get("findings").and_then(|f| f.as_array()) {
        for f in a {
            out.push(Known {
                property: f["property"].as_str().unwrap_or("").to_string(),
                signature: f["signature"].as_str().unwrap_or("\u{0}").to_string(),
                mode: f["match"].as_str().unwrap_or("exact").to_string(),
                what: f["what"].as_str().unwrap_or("").to_string(),
            });
        }
    }
    out
}

/// Normalise a message for use inside a signature: digits collapsed, length
/// bounded, so that a signature names a call site / clause, not one input.
pub fn norm_msg(s: &str) -> String {
    // keep the fixed part of a message: cut before the input-dependent tail
    let mut s = s;
    for cut in [": Error {", " of `", "; it is inside", ": \"", ": '"] {
        if let Some(p) = s.find(cut) {
            s = &s[..p];
        }
    }
    let mut out = String::new();
    let mut last_digit = false;
    for c in s.chars() {
        if c.is_ascii_digit() {
            if !last_digit {
                out.push('#');
            }
            last_digit = true;
        } else {
            last_digit = false;
            out.push(if c == '\n' { ' ' } else { c });
        }
        if out.len() > 100 {
            break;
        }
    }
    out
}
