use lqv_core::report::Tier;

fn usage() -> ! {
    eprintln!("usage: lqv run <ID> quick|thorough | lqv replay <file>");
    std::process::exit(2);
}

fn main() {
    let args: Vec<String> = std::env::args().collect();
    if args.len() < 3 {
        usage();
    }
    match args[1].as_str() {
        "run" => {
            let tier = match args.get(3).map(|s| s.as_str()) {
                Some("thorough") => Tier::Thorough,
                Some("quick") | None => Tier::Quick,
                _ => usage(),
            };
            let code = lqv_core::run_property(&args[2], tier);
            std::process::exit(code);
        }
        "replay" => std::process::exit(lqv_core::replay::replay(&args[2])),
        "worker" => match args[2].as_str() {
            "c11-table" => lqv_core::props::c11::print_table(),
            _ => usage(),
        },
        _ => usage(),
    }
}
