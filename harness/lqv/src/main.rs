use lqv_core::report::Tier;

fn usage() -> ! {
    eprintln!("usage: lqv run <ID> quick|thorough | lqv replay <file>");
    std::process::exit(2);
}

/// Runs the check in a child process.  If the child is killed by a signal (stack overflow,
/// allocation failure, a double panic: things `catch_unwind` cannot turn into a value), the chunk
/// journal it kept names the enumeration windows that were in flight; each is re-run, one case per
/// journal entry, in further children until one dies again; that case is the witness of an
/// `abort` violation.  An abort that cannot be reproduced stays a machinery failure (exit 2).
fn supervise(id: &str, tier: Tier) -> i32 {
    use std::process::Command;
    let exe = std::env::current_exe().expect("current exe");
    let dir = format!("{}/replays/tmp", lqv_core::report::verif_dir());
    let _ = std::fs::create_dir_all(&dir);
    let journal = format!("{dir}/{id}-journal-{}.txt", std::process::id());
    let probe = format!("{dir}/{id}-probe-{}.txt", std::process::id());
    let _ = std::fs::remove_file(&journal);
    let tier_s = if tier.thorough() { "thorough" } else { "quick" };
    let status = Command::new(&exe).args(["run", id, tier_s]).env("LQV_CHILD", "1").env("LQV_CRASHFILE", &journal).status().expect("spawn child");
    let cleanup = || {
        let _ = std::fs::remove_file(&journal);
        let _ = std::fs::remove_file(&probe);
    };
    if let Some(code) = status.code() {
        if code <= 2 {
            cleanup();
            return code;
        }
    }
    eprintln!("[{id}] the engine died ({status}); looking for the case that kills it");
    let lines: Vec<String> = std::fs::read_to_string(&journal).unwrap_or_default().lines().map(|l| l.to_string()).collect();
    let total_chunks = lines.len() as u64;
    // the windows in flight are among the last few journal entries (one per worker thread)
    let mut seen = std::collections::HashSet::new();
    let candidates: Vec<&String> = lines.iter().rev().filter(|l| seen.insert((*l).clone())).take(48).collect();
    for c in candidates {
        let _ = std::fs::remove_file(&probe);
        let st = Command::new(&exe).args(["run", id, tier_s]).env("LQV_CHILD", "1").env("LQV_PROBE", c).env("LQV_CRASHFILE", &probe).stdout(std::process::Stdio::null()).stderr(std::process::Stdio::null()).status();
        let died = st.map(|s| s.code().map(|c| c > 2).unwrap_or(true)).unwrap_or(false);
        if !died {
            continue;
        }
        let idx = std::fs::read_to_string(&probe).unwrap_or_default().trim().to_string();
        let fam = c.split('\t').next().unwrap_or("?").to_string();
        let Ok(idx) = idx.parse::<u64>() else { continue };
        let out = Command::new(&exe).args(["run", id, tier_s]).env("LQV_CHILD", "1").env("LQV_DESCRIBE", format!("{fam}\t{idx}")).output();
        let witness: serde_json::Value = out.ok().and_then(|o| String::from_utf8_lossy(&o.stdout).lines().rev().find_map(|l| serde_json::from_str(l).ok())).unwrap_or(serde_json::json!({"family": fam, "index": idx}));
        let id_static: &'static str = Box::leak(id.to_string().into_boxed_str());
        let level = match id {
            "C04" | "C08" | "C09" | "C18" | "C19" => "model_checking",
            "C10" => "fault_enumeration",
            _ => "exploration",
        };
        let report = lqv_core::report::Report::new(id_static, tier, level);
        // what was covered before the engine died: the journalled enumeration windows
        report.nontrivial.fetch_add(total_chunks.max(2), std::sync::atomic::Ordering::Relaxed);
        report.states.fetch_add(total_chunks.max(1), std::sync::atomic::Ordering::Relaxed);
        report.transitions.fetch_add(total_chunks.max(1), std::sync::atomic::Ordering::Relaxed);
        report.set_rule("the engine process was killed while enumerating; the case was pinned down by re-running the journalled windows one case per process");
        report.evals(total_chunks.max(1));
        report.sample(witness.clone());
        report.family(lqv_core::report::FamilyStat { name: fam.clone(), cases: total_chunks, nontrivial: 0, skipped: 0, note: "journal entries (enumeration windows) written before the engine died".into() });
        report.violation(&format!("{id}|abort|{fam}"), idx, witness, format!("case {idx} of family {fam} kills the process ({status}): an abort (stack overflow, allocation failure, double panic) instead of a result"));
        let code = report.finish();
        cleanup();
        return if code == 0 { 1 } else { code };
    }
    eprintln!("[{id}] machinery failure: the engine died ({status}) and no journalled window reproduces it; no verdict");
    cleanup();
    2
}

fn main() {
    let args: Vec<String> = std::env::args().collect();
    if args.len() < 3 {
        usage();
    }
    match args[1].as_str() {
        "run" => {
            let tier = match args.get(3).map(|s| s.as_str()) {
                Some("thorough") => Tier::Thorough,
                Some("quick") | None => Tier::Quick,
                _ => usage(),
            };
            if std::env::var("LQV_CHILD").is_ok() {
                std::process::exit(lqv_core::run_property(&args[2], tier));
            }
            std::process::exit(supervise(&args[2], tier));
        }
        "replay" => std::process::exit(lqv_core::replay::replay(&args[2])),
        "worker" => match args[2].as_str() {
            "c11-table" => lqv_core::props::c11::print_table(),
            _ => usage(),
        },
        _ => usage(),
    }
}
